"""C01 -- mask-confined episodes are feasible (routing).  Structural clauses decided:

C01.a  mask freshness: the mask stored by `_step`/`_reset` is computed from the final state
       (every cell read by the resolved `get_action_mask` is the cell's final definition)
C01.b  constraint coverage: every reference literal of the env's row reaches the mask with the
       demanded polarity and (where demanded) in conjunctive position
C01.c  state updates depend on the action and the listed inputs; indicator cells are monotone
C01.d  no boundary is looser than the ground truth (strictness and constant shifts)
C01.e  per-route accumulators are multiplied by (action != depot)
"""
from __future__ import annotations

from .. import nf, vg
from ..core import Ctx
from ..envs import EnvA, Lit, find_literal, show_leaf, strictness, const_term, sided_atoms
from ..model import AnalysisError
from ..tables import routing as T

FLOOR = 355
EXPLANATION = (
    "Static def-use/normal-form analysis of the 13 routing env classes (resolved through inheritance): the value "
    "graph of _step/_reset/get_action_mask is reconstructed from source; the stored mask must be a function of the "
    "final state (freshness), contain every reference constraint literal with the right polarity/position, be no "
    "looser than the ground-truth inequality, and state updates must depend on the action and reset at the depot. "
    "Decides these necessary structural clauses for every input at once; does not decide joint sufficiency of the "
    "constraints (float rounding, generator preconditions)."
)
RULE = "one obligation per (env class, rule, reference literal / state key); violation = literal missing, wrong polarity, stale read, looser boundary, missing dependency"


def mask_root(env: EnvA, family: str):
    """The boolean value whose literals are checked: the return of the resolved mask function
    (recompute family) or the action_mask value written by _step (incremental family)."""
    if family == "recompute":
        sl = env.slot("get_action_mask")
        if sl is None or not env.own("get_action_mask"):
            raise AnalysisError(f"{env.name}: no get_action_mask implementation found")
        if not isinstance(sl.fr.ret, vg.S):
            raise AnalysisError(f"{env.name}.get_action_mask: return value not resolved")
        return sl, sl.fr.ret
    sl = env.slot("_step")
    am = sl.cell("action_mask") if sl is not None else None
    if am is None or am.op == "cell0":
        raise AnalysisError(f"{env.name}._step does not write action_mask")
    return sl, am


def boundary(leaf: nf.Leaf, lit: Lit):
    """Compare a matched comparison literal with its reference: 'equal' | 'looser' | 'tighter'."""
    if lit.kind != "cmp" or lit.strict is None:
        return "equal", ""
    s = strictness(leaf)
    res, why = "equal", ""
    if s is not None and s != lit.strict:
        if lit.strict and not s:
            res, why = "looser", "non-strict where the ground truth is strict"
        else:
            res, why = "tighter", "strict where the ground truth admits equality"
    if lit.const is not None:
        c = const_term(leaf)
        if c is not None and c != lit.const:
            p, _ = leaf.cmp()
            if c > lit.const:
                return "looser", f"constant term {float(c)} > {lit.const}: threshold shifted to the lenient side"
            return ("tighter" if res != "looser" else res), f"constant term {float(c)} < {lit.const}: threshold shifted to the strict side"
    return res, why


def match_all(leaves, lits, allow_reduced=False):
    """Assign every comparison literal of the row to a distinct code literal (backtracking);
    returns {lit.name: (leaf | None, elsewhere, reversed)}."""
    cands = {}
    info = {}
    for lit in lits:
        good, elsewhere, rev = find_literal(leaves, lit, allow_reduced=allow_reduced)
        cands[lit.name] = good
        info[lit.name] = (elsewhere, rev)
    cmps = [l for l in lits if l.kind == "cmp"]
    order = sorted(cmps, key=lambda l: len(cands[l.name]))
    assign = {}

    def key(leaf):
        return nf.norm(leaf.node).id

    def bt(i, used):
        if i == len(order):
            return True
        lit = order[i]
        for leaf in cands[lit.name]:
            k = key(leaf)
            if k in used:
                continue
            assign[lit.name] = leaf
            if bt(i + 1, used | {k}):
                return True
            del assign[lit.name]
        if not cands[lit.name]:
            assign[lit.name] = None
            return bt(i + 1, used)
        return False

    if not bt(0, frozenset()):
        # no distinct assignment: fall back to greedy, unmatched become None
        used = set()
        for lit in order:
            assign[lit.name] = None
            for leaf in cands[lit.name]:
                if key(leaf) not in used:
                    assign[lit.name] = leaf
                    used.add(key(leaf))
                    break
    out = {}
    for lit in lits:
        if lit.kind == "cmp":
            leaf = assign.get(lit.name)
        else:
            leaf = cands[lit.name][0] if cands[lit.name] else None
        out[lit.name] = (leaf, info[lit.name][0], info[lit.name][1], cands[lit.name])
    return out


def check_literals(ctx: Ctx, prop_rule: str, env: EnvA, sl, root, lits, what: str, direction: str, ids=None):
    """Shared by C01.b/d and C05: `direction` = 'looser' (C01) or 'tighter' (C05) selects which
    boundary deviation is a violation for this property."""
    leaves = nf.boolwalk(root, T.BOOL_CELLS)
    m = match_all(leaves, lits)
    by_name = {l.name: l for l in lits}
    id_presence, id_boundary = ids if ids else (("C01.b", "C01.d") if direction == "looser" else ("C05.a", "C05.a"))
    for lit in lits:
        leaf, elsewhere, rev, cands = m[lit.name]
        inst = f"{env.name}.{what}:{lit.name}"
        if direction == "looser":
            if leaf is None and lit.optional and not elsewhere:
                ctx.ob(id_presence, inst, True, sl.where, f"optional pruning '{lit.name}' is not applied (nothing to check)")
                continue
            if leaf is None and lit.alt and elsewhere:
                # a pruning alternative: its orientation decides which feasible moves are hidden (C05.c), not whether offered moves are feasible
                ctx.ob(id_presence, inst, True, sl.where, f"pruning literal present ({show_leaf(elsewhere[0])}); its orientation is C05's concern")
                continue
            if leaf is None:
                extra = ""
                if elsewhere:
                    extra = " (found only in a non-required position/polarity: " + "; ".join(show_leaf(x) + (" [disjunctive]" if not x.conj else "") + (" [reduced]" if x.reduced else "") for x in elsewhere[:3]) + ")"
                if rev:
                    extra += " (found with the sides REVERSED: " + "; ".join(show_leaf(x) for x in rev[:2]) + ")"
                ctx.ob(id_presence, inst, False, sl.where, f"reference literal '{lit.name}' [{describe(lit)}] does not reach the mask{extra}. {lit.why}",
                       construct=f"{sl.fi.qualname}:{lit.name}:missing")
                continue
            ctx.ob(id_presence, inst, True, sl.where, f"{show_leaf(leaf)}")
            ctx.sample({"env": env.name, "literal": lit.name, "code": show_leaf(leaf), "conj": leaf.conj})
            if lit.conj_with:
                other = m[lit.conj_with][3]
                ok = any(nf.lca_op(c, o) == "and" for c in cands for o in other)
                ctx.ob(id_presence, inst + ":with:" + lit.conj_with, ok, sl.where,
                       f"'{lit.name}' must be conjoined with '{lit.conj_with}' (same alternative of the disjunction)",
                       construct=f"{sl.fi.qualname}:{lit.name}:not-conjoined-with:{lit.conj_with}")
        if leaf is None:
            continue
        if lit.kind == "cmp" and leaf.cmp() is not None:
            # term polarity: every quantity of the reference inequality pushes the admit polynomial in the reference direction
            # (a flipped sign of ONE term, or a flag used with the wrong polarity, keeps the cell sets of the two sides intact)
            pol = nf.polarity(leaf.cmp()[0].to_sym())
            exp = lit.expected_signs()
            # sign 0 = dependence through a function whose direction the analysis does not know: undecided, never reported
            wrong = {k: sorted(v) for k, v in pol.items() if k in exp and not ((v - {0}) <= exp[k])}
            # a state quantity the reference inequality does not contain: it shifts the boundary of the constraint.  Entering on the
            # admitting side it offers actions the constraint forbids (C01), on the other side it hides feasible ones (C05)
            bad_sign = +1 if direction == "looser" else -1
            foreign = {k: sorted(v) for k, v in pol.items() if k not in exp and bad_sign in v}
            if foreign:
                wrong.update({k: v for k, v in foreign.items()})
                exp = dict(exp)
                for k in foreign:
                    exp[k] = set()
            pid = "C01.q" if direction == "looser" else "C05.d"
            ctx.ob(pid, inst + ":term-signs", not wrong, sl.where,
                   f"{show_leaf(leaf)}: " + ("every term enters with the reference sign" if not wrong else
                                             "; ".join((f"`{k}` enters with sign(s) {v}, the constraint needs {sorted(exp[k])}" if exp[k] else f"`{k}` is not part of the constraint but enters its inequality with sign(s) {v}") for k, v in wrong.items()) +
                                             " -- a term of the inequality was flipped / a flag is used with the wrong polarity, so the constraint admits infeasible or hides feasible actions"),
                   construct=f"{sl.fi.qualname}:{lit.name}:term-sign:" + ",".join(sorted(wrong)))
        if lit.kind == "cmp" and leaf.cmp() is not None and lit.legs is not None:
            # travelled legs: distance atoms of the admit polynomial.  A leg more than the reference budgets a distance twice (the
            # OP limit stored by _reset already has the way back subtracted), a leg less forgets one
            legs_ = [a_ for a_ in leaf.cmp()[0].atoms() if nf._fn(a_) in nf.DIST_FN or (a_.op == "meth" and a_.args[1] == "norm") or nf._fn(a_) in ("torch.norm", "torch.linalg.norm", "torch.cdist")]
            lid = "C01.q" if direction == "looser" else "C05.d"
            okl = len(legs_) == lit.legs if direction == "looser" else len(legs_) <= lit.legs
            okl = okl if direction == "tighter" else len(legs_) >= lit.legs
            ctx.ob(lid, inst + ":legs", okl, sl.where,
                   f"{show_leaf(leaf)}: {len(legs_)} travelled leg(s) in the inequality, the constraint has {lit.legs}" +
                   ("" if okl else (" -- a distance is budgeted twice: feasible actions are hidden" if direction == "tighter" else " -- a leg is missing: infeasible actions are offered")),
                   construct=f"{sl.fi.qualname}:{lit.name}:legs")
        if lit.kind == "cmp" and leaf.cmp() is not None:
            # the two sides are compared as real numbers: a side that is truncated to an integer (or cast to the dtype of
            # integer instance data) moves by up to one unit -- a vehicle arriving 0.9 after the deadline is `in time`
            cut = truncations(leaf.node)
            tid = "C01.z" if direction == "looser" else "C05.i"
            ctx.ob(tid, inst + ":compared-untruncated", not cut, sl.where,
                   f"{show_leaf(leaf)}: " + ("no operand is truncated" if not cut else
                                             f"operand {vg.show(cut[0], 3)[:100]} is truncated / cast to another tensor's dtype before the comparison"),
                   construct=f"{sl.fi.qualname}:{lit.name}:truncated-operand")
        if lit.kind == "cmp" and lit.strict is not None:
            # a literal may occur several times; every occurrence in required position counts
            worst, why = "equal", ""
            for c in (cands if lit.conj else [leaf]):
                r, w = boundary(c, lit)
                if r == direction:
                    worst, why, leaf = r, w, c
                    break
            rid = id_boundary
            ctx.ob(rid, inst, worst != direction, sl.where,
                   f"{show_leaf(leaf)}  vs reference {describe(lit)}" + (f": {why}. {lit.why}" if worst == direction else ""),
                   construct=f"{sl.fi.qualname}:{lit.name}:{direction}")
    if direction == "looser":
        connective_matrix(ctx, id_presence, env, sl, lits, m, what)


TRUNC_METHS = {"int", "long", "short", "floor", "trunc", "round", "ceil", "floor_", "trunc_", "round_", "floor_divide"}
TRUNC_FUNCS = {"torch.floor", "torch.trunc", "torch.round", "torch.ceil", "torch.floor_divide"}


def truncations(node):
    """arithmetic sub-expressions of a comparison that pass through an integer truncation: x.int() / .long() / floor / round,
    `x // y`, x.to(torch.int*), and x.to(y.dtype) / x.type_as(y) where y is instance data (whose dtype the generator chooses)"""
    out = []
    for n in vg.walk(node):
        if not isinstance(n, vg.S):
            continue
        def dep(x):
            if not (isinstance(x, vg.S) and vg.cells_of(x)):
                return False
            y = nf.strip(x, True)
            if nf._cmp_raw(y) is not None or y.op in ("&", "|", "not", "inv", "and", "or", "^") or (y.op == "meth" and y.args[1] in ("any", "all", "bool", "isin", "logical_and", "logical_or", "logical_not")):
                return False            # an indicator: 0 / 1 either way
            try:
                from ..bounds import Prover
                if Prover().integral(x):
                    return False        # already integer-valued
            except Exception:
                pass
            return True
        if n.op == "meth" and n.args[1] in TRUNC_METHS and dep(n.args[0]):
            out.append(n)
        elif nf._fn(n) in TRUNC_FUNCS and len(n.args) > 1 and dep(n.args[1]):
            out.append(n)
        elif n.op == "//" and dep(n.args[0]):
            out.append(n)
        elif n.op == "meth" and n.args[1] in ("to", "type") and dep(n.args[0]):
            for a in n.args[2:]:
                a = a.args[1] if isinstance(a, vg.S) and a.op == "kw" else a
                if not isinstance(a, vg.S):
                    continue
                if a.op in ("ext", "global") and isinstance(a.args[0], str) and any(t in a.args[0] for t in ("int", "long", "short", "uint8")):
                    out.append(n)
                if a.op == "attr" and a.args[1] == "dtype" and isinstance(a.args[0], vg.S) and vg.cells_of(a.args[0]) and nf.strip(a.args[0]) is not nf.strip(n.args[0]):
                    out.append(n)
        elif n.op == "meth" and n.args[1] == "type_as" and dep(n.args[0]) and len(n.args) > 2 and isinstance(n.args[2], vg.S) and vg.cells_of(n.args[2]):
            out.append(n)
    return out


# bounds stored with a documented margin: (env, cell) -> reason
BOUND_MARGINS = {
    ("OPEnv", "max_length"): "documented in OPEnv._reset: 1e-6 is subtracted `for numeric stability`; the checker adds it back (tables: length)",
}


def bound_state_exact(ctx: Ctx, rid: str, env: EnvA, lits, direction: str):
    """The upper bounds a mask compares against (vehicle capacity, maximum length, distance limit ...) are state cells written by
    `_reset`.  The reference constraint is stated with the instance's own bound: the value stored must be that bound, not the
    bound shifted by a constant.  A negative shift turns `load exactly fills the vehicle` into a forbidden move (C05), a positive
    one admits loads above the capacity (C01)."""
    rs = env.slot("_reset")
    if rs is None or rs.td is None:
        return
    seen = set()
    for lit in lits:
        if lit.kind != "cmp":
            continue
        for key in sorted(lit.big):
            if key in seen:
                continue
            v = rs.td.cells.get(key)
            if not isinstance(v, vg.S) or (v.op == "cell0" and v.args[1] == key):
                continue
            seen.add(key)
            x = nf.strip(v)
            while True:
                if nf._fn(x) == "torch.full" and len(x.args) >= 3:
                    x = nf.strip(x.args[2]); continue
                if nf._fn(x) in ("torch.full_like",) and len(x.args) >= 3:
                    x = nf.strip(x.args[2]); continue
                if x.op == "meth" and x.args[1] in ("clone", "to", "float", "unsqueeze", "expand", "repeat", "view", "reshape", "contiguous"):
                    x = nf.strip(x.args[0]); continue
                break
            if nf._fn(x) in ("torch.zeros", "torch.zeros_like", "torch.ones", "torch.ones_like"):
                continue                        # an accumulator that starts empty, not a bound
            try:
                c = nf.poly(x).const_term()
            except Exception:
                continue
            if len(nf.poly(x).terms) <= 1 and c != 0:
                continue                        # the bound IS a constant (e.g. a normalised capacity of 1.0)
            shifted = (c < 0) if direction == "tighter" else (c > 0)
            why_exc = BOUND_MARGINS.get((env.name, key))
            ok = not shifted or why_exc is not None
            ctx.ob(rid, f"{env.name}._reset:{key}:bound-stored-exactly", ok, rs.where,
                   f"{key} = {vg.show(x, 3)[:120]}: constant shift {float(c):g}" + (f" -- accepted: {why_exc}" if shifted and why_exc else "") +
                   ("" if ok else (" -- the bound the mask compares with is smaller than the instance's: an action that meets the constraint with equality is not offered"
                                   if direction == "tighter" else " -- the bound the mask compares with is larger than the instance's: infeasible actions are offered")),
                   construct=f"{env.name}._reset:{key}:bound-shift")


def connective_matrix(ctx: Ctx, rid: str, env: EnvA, sl, lits, m, what: str):
    """Alternatives of a disjunctive constraint: the literals tied together by `conj_with` form one alternative each.  Inside an
    alternative every pair of literals meets at an AND, literals of different alternatives meet at an OR, and an alternative
    literal meets every top-level conjunct at an AND.  (`(A | ~B) & C` keeps every literal, every polarity and every
    `conj_with` pair of `A & ~B & C`, but admits actions the constraint forbids.)"""
    parent = {}

    def find(x):
        while parent.get(x, x) != x:
            x = parent[x]
        return x

    grouped = [l for l in lits if l.conj_with]
    if not grouped:
        return
    for l in grouped:
        parent.setdefault(l.name, l.name)
        parent.setdefault(l.conj_with, l.conj_with)
        parent[find(l.name)] = find(l.conj_with)
    groups = {}
    for name in parent:
        leaf = m.get(name, (None,))[0]
        if leaf is not None:
            groups.setdefault(find(name), []).append((name, leaf))
    bad = []
    n_pairs = 0
    gl = sorted(groups.items())
    for gi, (g, members) in enumerate(gl):
        for i in range(len(members)):
            for j in range(i + 1, len(members)):
                n_pairs += 1
                op = nf.lca_op(members[i][1], members[j][1])
                if op != "and":
                    bad.append(f"'{members[i][0]}' and '{members[j][0]}' (one alternative) meet at {op or 'no common connective'}")
        for g2, members2 in gl[gi + 1:]:
            for a in members:
                for b in members2:
                    n_pairs += 1
                    op = nf.lca_op(a[1], b[1])
                    if op != "or":
                        bad.append(f"'{a[0]}' and '{b[0]}' (different alternatives) meet at {op or 'no common connective'}")
    top = [(l.name, m[l.name][0]) for l in lits if l.conj and not l.alt and l.kind in ("cmp", "cell") and m.get(l.name, (None,))[0] is not None and l.name not in parent]
    for g, members in gl:
        for a in members:
            for t in top:
                n_pairs += 1
                op = nf.lca_op(a[1], t[1])
                if op != "and":
                    bad.append(f"'{a[0]}' (alternative) and top-level '{t[0]}' meet at {op or 'no common connective'}")
    ctx.ob(rid, f"{env.name}.{what}:alternatives:connectives", not bad, sl.where,
           f"{len(gl)} alternative(s), {n_pairs} literal pairs meet at the reference connective" if not bad else "; ".join(bad[:4]),
           construct=f"{sl.fi.qualname}:alternatives:connectives")


def describe(lit: Lit) -> str:
    if lit.kind == "cmp":
        return f"{'+'.join(sorted(lit.big)) or '0'} - ({'+'.join(sorted(lit.small)) or '0'}) {'>' if lit.strict else '>='} 0" + ("" if lit.conj else " (any position)")
    if lit.kind == "cell":
        return f"{'~' if lit.sign < 0 else ''}{lit.key}" + (" as top-level conjunct" if lit.conj else "")
    if lit.kind == "sel":
        return f"entry selected by {sorted(lit.cells)} forced {'on' if lit.sign > 0 else 'off'}"
    return f"{lit.kind} over {sorted(lit.cells)} {lit.op or ''}"


def rule_a(ctx: Ctx, env: EnvA, family: str):
    for meth in ("_step", "_reset"):
        sl = env.slot(meth)
        if sl is None:
            raise AnalysisError(f"{env.name}.{meth} not found")
        ctx.fn(sl.fi)
        probs = sl.problems()
        if probs:
            raise AnalysisError(f"{env.name}.{meth}: unhandled constructs {probs[:3]}")
        if sl.td is None:
            raise AnalysisError(f"{env.name}.{meth}: returned TensorDict not resolved")
        am = sl.cell("action_mask")
        if am is None or am.op in ("cell0", "missing"):
            raise AnalysisError(f"{env.name}.{meth}: no action_mask written")
        if family != "recompute":
            continue
        ids = {n.id for n in vg.walk(am)}
        frames = [f for f in sl.frames_of("get_action_mask") if isinstance(f.ret, vg.S) and f.ret.id in ids]
        if not frames:
            raise AnalysisError(f"{env.name}.{meth}: stored action_mask is not produced by a resolved get_action_mask call")
        exact = [f for f in frames if f.ret is am]
        fr = exact[0] if exact else min(frames, key=lambda f: f.depth)
        for f in frames:
            ctx.fn(f.func)
        stale, seen = [], set()
        for uid, key, val, node in fr.reads:
            if uid != sl.td.uid or key == "action_mask" or key in seen:
                continue
            seen.add(key)
            final = sl.td.cells.get(key)
            if val.op == "missing":
                stale.append((key, "read before the key exists in the reset state"))
            elif final is not val:
                stale.append((key, f"mask reads {vg.show(val, 3)} but the state returned holds {vg.show(final, 3)}"))
        inst = f"{env.name}.{meth}"
        if stale:
            for key, why in stale:
                ctx.ob("C01.a", inst + ":" + key, False, sl.where, f"mask computed from a stale '{key}': {why}",
                       construct=f"{sl.fi.qualname}:stale:{key}")
        else:
            ctx.ob("C01.a", inst, True, sl.where, f"mask reads the final definition of {sorted(seen)}")


def rule_c(ctx: Ctx, env: EnvA):
    sl = env.slot("_step")
    for key, need in T.UPDATE.get(env.name, {}).items():
        val = sl.cell(key)
        inst = f"{env.name}._step:{key}"
        if val is None or (val.op == "cell0" and val.args[1] == key):
            ctx.ob("C01.c", inst, False, sl.where, f"state key '{key}' is not updated by _step", construct=f"{sl.fi.qualname}:{key}:not-updated")
            continue
        have = vg.cells_of(val)
        miss = need - have
        ctx.ob("C01.c", inst, not miss, sl.where,
               f"new '{key}' depends on {sorted(have)}" + (f"; missing {sorted(miss)}" if miss else ""),
               construct=f"{sl.fi.qualname}:{key}:missing-dep:{','.join(sorted(miss))}")
    monotone(ctx, env, "C01.c")


def monotone(ctx: Ctx, env: EnvA, rid: str):
    sl = env.slot("_step")
    for key, direction in T.MONOTONE.get(env.name, {}).items():
        val = sl.cell(key)
        if val is None:
            continue
        leaves = nf.boolwalk(val, T.BOOL_CELLS)
        old = [l for l in leaves if _is_cell(l.node, key)]
        sel = [l for l in leaves if l.node.op == "selected" and "action" in vg.cells_of(l.node)]
        if direction == "up":
            ok = bool(old) and all(l.sign > 0 for l in old) and any(l.sign > 0 for l in sel) and all(l.sign > 0 for l in sel)
            want = f"{key}' = {key} | onehot(f(action))"
        else:
            ok = bool(old) and all(l.sign > 0 and l.conj for l in old) and any(l.sign < 0 and l.conj for l in sel) and all(l.sign < 0 for l in sel)
            want = f"{key}' = {key} & ~onehot(action)"
        ctx.ob(rid, f"{env.name}._step:{key}:monotone-{direction}", ok, sl.where,
               f"expected {want}; found literals {[('+' if l.sign > 0 else '-') + vg.show(l.node, 2) for l in leaves][:6]}",
               construct=f"{sl.fi.qualname}:{key}:monotone-{direction}")


def _is_cell(n, key):
    n = nf.strip(n, bool_ctx=True)
    while n.op == "sub":
        n = nf.strip(n.args[0], bool_ctx=True)
    return n.op == "cell0" and n.args[1] == key


def resets_at_depot(val) -> bool:
    v = nf.strip(val)
    fn = nf._fn(v)
    if fn == "torch.where" and len(v.args) == 4:
        c, a, b = v.args[1:]
        if "action" in vg.cells_of(c) and (vg.is_const(a, 0) or vg.is_const(b, 0) or vg.is_const(a, 0.0) or vg.is_const(b, 0.0)):
            return True
    p = nf.poly(val)
    if not p.terms:
        return False
    for c, fs in p.monos():
        ok = False
        for a, _ in fs:
            a1 = nf.strip(a, bool_ctx=True)
            if a1.op == "cmp" and a1.args[0] == "!=0" and "action" in vg.cells_of(a1):
                ok = True
        if not ok:
            return False
    return True


def rule_e(ctx: Ctx, env: EnvA):
    sl = env.slot("_step")
    for key in T.ACCUMULATORS.get(env.name, []):
        val = sl.cell(key)
        if val is None:
            raise AnalysisError(f"{env.name}: accumulator {key} not written")
        ok = resets_at_depot(val)
        ctx.ob("C01.e", f"{env.name}._step:{key}", ok, sl.where,
               f"new '{key}' = {nf.poly(val).show(2)}" + ("" if ok else " -- not of the form (action != depot) * (...): never restarts at the depot"),
               construct=f"{sl.fi.qualname}:{key}:no-depot-reset")


def _alts(s, g=()):
    if isinstance(s, vg.S) and s.op in ("phi", "ifexp"):
        yield from _alts(s.args[1], g + ((s.args[0].id, True),))
        yield from _alts(s.args[2], g + ((s.args[0].id, False),))
    else:
        yield g, s


def _inplace_modified(v) -> bool:
    return isinstance(v, vg.S) and (v.op == "store" or (v.op == "meth" and v.args[1].endswith("_") and not v.args[1].startswith("__")))


def rule_f(ctx: Ctx, env: EnvA):
    """C01.f no two state cells of the reset / step result share one tensor object that was
    modified in place after the sharing started (e.g. `action_mask = available` followed by
    `action_mask[..., 1:] = False` also wipes `available`): the state the mask is later
    computed from would be corrupted on that configuration path."""
    for meth in ("_reset", "_step"):
        sl = env.slot(meth)
        if sl is None or sl.td is None:
            continue
        cells = {k: v for k, v in sl.td.cells.items() if isinstance(v, vg.S) and not (v.op == "cell0")}
        per = {}
        for k, v in cells.items():
            for g, a in _alts(v):
                per.setdefault((g, a.id), []).append((k, a))
        bad = []
        for (g, _), lst in per.items():
            keys = sorted({k for k, _ in lst})
            if len(keys) >= 2 and _inplace_modified(lst[0][1]):
                bad.append((keys, lst[0][1]))
        inst = f"{env.name}.{meth}:no-aliased-inplace-state"
        if bad:
            keys, node = bad[0]
            ctx.ob("C01.f", inst, False, sl.where,
                   f"state cells {keys} are the SAME tensor object and it is modified in place ({vg.show(node, 3)}): writing one of them through an index also changes the other",
                   construct=f"{sl.fi.qualname}:aliased-inplace:{','.join(keys)}")
        else:
            ctx.ob("C01.f", inst, True, sl.where, f"{len(cells)} written cells, none shares an in-place modified tensor with another")


def rule_h(ctx: Ctx, env: EnvA):
    """C01.h direction of the accumulating updates: the tracked load / clock / length grows with
    what is added to it (a `-` for a `+` makes the mask compare against a quantity that shrinks)."""
    sl = env.slot("_step")
    for key, want in T.UPDATE_SIGN.get(env.name, {}).items():
        val = sl.cell(key)
        if val is None:
            raise AnalysisError(f"{env.name}._step: {key} not written")
        have = nf.polarity(val)
        bad = {c: (sorted(have.get(c, set())), sorted(w)) for c, w in want.items() if have.get(c, set()) != set(w)}
        ctx.ob("C01.h", f"{env.name}._step:{key}:direction", not bad, sl.where,
               f"'{key}' grows/shrinks with its inputs as {{cell: signs}} = { {c: sorted(v) for c, v in have.items() if c in want} }" +
               ("" if not bad else f"; expected { {c: w for c, (h, w) in bad.items()} } but found { {c: h for c, (h, w) in bad.items()} }"),
               construct=f"{sl.fi.qualname}:{key}:direction:{','.join(sorted(bad))}")


def _registry(ctx: Ctx, relpath: str, fn: str):
    """env name -> embedding class, from the dict literal inside the registry function"""
    import ast as _ast
    fi = ctx.repo.get_function(relpath, fn)
    out = {}
    for n in _ast.walk(fi.node):
        if isinstance(n, _ast.Dict) and len(n.keys) > 5 and all(isinstance(k, _ast.Constant) for k in n.keys):
            for k, v in zip(n.keys, n.values):
                if isinstance(v, _ast.Name):
                    r = ctx.repo.resolve_global(fi.module, v.id)
                    if r is not None and r[0] == "class":
                        out[k.value] = r[1]
    return out


def _td_reads(ctx: Ctx, cls) -> set:
    import ast as _ast
    keys = set()
    for c in ctx.repo.mro(cls):
        if isinstance(c, str):
            continue
        for m in c.methods.values():
            if ctx.repo.resolve_method(cls, m.name) is not m:
                continue
            for n in _ast.walk(m.node):
                if isinstance(n, _ast.Subscript) and isinstance(n.value, _ast.Name) and n.value.id == "td" and isinstance(n.slice, _ast.Constant) and isinstance(n.slice.value, str) \
                        and isinstance(n.ctx, _ast.Load):
                    keys.add(n.slice.value)
    return keys


def rule_g(ctx: Ctx, env: EnvA, registries):
    """C01.g closed state vocabulary: every key that _step, the mask, the reward, the checker and
    the env's registered policy embeddings read from the state is provided by _reset or written by
    _step; the row-uniform step counter `i` advances by exactly one per step."""
    rs, st = env.slot("_reset"), env.slot("_step")
    provided = set(rs.td.cells) | {"action"}
    written = {k for k, v in st.td.cells.items() if not (v.op == "cell0" and v.args[1] == k)}
    for meth in ("get_action_mask", "_get_reward", "check_solution_validity"):
        if meth != "_get_reward" and not env.own(meth):
            continue
        sl = env.slot(meth)
        if sl is not None and sl.td is not None:
            written |= {k for k, v in sl.td.cells.items() if not (v.op == "cell0" and v.args[1] == k)}
    need = {}
    for meth in ("_step", "get_action_mask", "_get_reward", "check_solution_validity"):
        if meth in ("get_action_mask", "check_solution_validity") and not env.own(meth):
            continue
        sl = env.slot(meth)
        if sl is None or sl.td is None:
            continue
        for uid, key, val, node in sl.fr.reads:
            if isinstance(val, vg.S) and val.op == "cell0" and key != "*":
                need.setdefault(key, set()).add(f"{env.name}.{meth}")
    name_attr = ctx.repo.resolve_class_attr(env.cls, "name")
    ename = name_attr[0].value if name_attr and hasattr(name_attr[0], "value") else None
    for rname, reg in registries.items():
        # reported only: a policy embedding reading an absent key fails loudly (KeyError) and is outside
        # the property's statement about the environment (e.g. the `atsp` entry of the init registry
        # points to TSPInitEmbedding, which reads `locs`)
        c = reg.get(ename)
        if c is not None:
            absent = sorted(k for k in _td_reads(ctx, c) if k not in provided and k not in written)
            if absent:
                ctx.note(f"{env.name}: {rname} embedding {c.name} reads {absent}, which the env state does not contain (not armed)")
    missing = {k: sorted(v) for k, v in need.items() if k not in provided and k not in written}
    ctx.ob("C01.g", f"{env.name}:state-vocabulary", not missing, rs.where,
           f"{len(need)} keys read by step/mask/reward/checker/embeddings, all provided by _reset ({len(provided)} keys) or written by _step" if not missing else
           f"keys read but never provided: {missing}",
           construct=f"{env.name}:state-keys:{','.join(sorted(missing))}")
    if "i" in rs.td.cells:
        inc = st.td.cells.get("i")
        ok = inc is not None and (nf.poly(inc) - nf.poly(vg.mk("cell0", st.td.name, "i"))) == nf.Poly.const(1)
        ctx.ob("C01.g", f"{env.name}._step:counter-i", ok, st.where, "i' = i + 1" if ok else f"the step counter is not advanced by exactly one: i' = {vg.show(inc, 3) if inc is not None else 'unchanged'}",
               construct=f"{st.fi.qualname}:i:increment")


def rule_k(ctx: Ctx, env: EnvA):
    """C01.k initial mask of the incremental-mask envs (their _step only ever removes entries, so
    whatever the reset mask offers or hides stays so)."""
    rs = env.slot("_reset")
    am = rs.cell("action_mask")
    name = env.name
    ok, why = None, ""
    if name in ("TSPEnv", "ATSPEnv"):
        ok = nf.kleene(am, lambda n: None) is True
        why = "every node is offered at the first step"
    elif name == "MTSPEnv":
        st_ = nf.strip(am)
        ok = st_.op == "store" and nf.kleene(st_.args[0], lambda n: None) is True and vg.is_const(st_.args[2], 0) and any(vg.is_const(x, 0) for x in (st_.args[1].args if st_.args[1].op == "tuple" else [st_.args[1]]))
        why = "all cities offered, the depot (column 0) is not"
    elif name == "PDPEnv":
        td_cell = rs.cell("to_deliver")
        alts_ = [a for g, a in _alts(am)]
        default = [a for a in alts_ if any(n is td_cell for n in vg.walk(a))]
        okd = False
        for a in default:
            a0 = nf.strip(a)
            if a0.op == "store" and vg.is_const(a0.args[2], False):
                c = nf._connective(nf.strip(a0.args[0], True))
                okd = c is not None and c[0] == "and" and any(nf.strip(k, True) is nf.strip(td_cell, True) for k in c[1]) and \
                    any(vg.is_const(x, 0) for x in (a0.args[1].args if a0.args[1].op == "tuple" else [a0.args[1]]))
        forced = [a for a in alts_ if a not in default]
        okf = all(nf.strip(a).op == "store" and vg.is_const(nf.strip(a).args[2], False) for a in forced)
        ok = bool(default) and okd and okf
        why = "default start: only pickups (to_deliver) are offered and the depot is closed; forced start: only the depot is offered"
    elif name == "MDCPDPEnv":
        st_ = nf.strip(am)
        ok = st_.op == "store" and nf.kleene(st_.args[0], lambda n: None) is False and vg.is_const(st_.args[2], 1)
        why = "only the first depot is offered at the first step"
    if ok is not None:
        ctx.ob("C01.k", f"{name}._reset:initial-mask", bool(ok), rs.where, why if ok else f"initial mask is not as specified ({why}): {vg.show(am, 4)[:200]}",
               construct=f"{rs.fi.qualname}:initial-mask")


def rule_m(ctx: Ctx, env: EnvA):
    """C01.m pickup -> delivery pairing (PDP, MDCPDP): the entry unlocked in `to_deliver` is
    (action + n // 2) mod (number of nodes), with n = number of customers derived from the
    instance (locs) -- pickups 1..n/2 unlock deliveries n/2+1..n."""
    if env.name not in ("PDPEnv", "MDCPDPEnv"):
        return
    sl = env.slot("_step")
    v = nf.strip(sl.cell("to_deliver"))
    ok, why = False, "to_deliver is not updated by scatter(-1, paired index, 1)"
    if v.op == "meth" and v.args[1] in ("scatter", "scatter_") and len(v.args) >= 5:
        idx = v.args[3]
        mods = [n for n in vg.walk(idx) if n.op == "%"]
        if len(mods) == 1:
            m_ = mods[0]
            left, right = nf.poly(m_.args[0]), nf.poly(m_.args[1])
            shp = [a for a in right.atoms() if a.op == "sub" and a.args[0].op == "attr" and a.args[0].args[1] == "shape" and "locs" in vg.cells_of(a, shapes=True)]
            # number of nodes = locs.shape[-2]
            nodes_ok = len(shp) == 1 and right == nf.Poly.atom(shp[0])
            act = [a for a in left.atoms() if "action" in vg.cells_of(a)]
            half = [a for a in left.atoms() if a.op == "//" and vg.is_const(a.args[1], 2)]
            half_ok = False
            if len(half) == 1 and len(act) == 1 and left == nf.Poly.atom(act[0]) + nf.Poly.atom(half[0]):
                n_poly = nf.poly(half[0].args[0])
                # n = locs.shape[-2] - (number of depots)
                half_ok = len(shp) == 1 and (nf.Poly.atom(shp[0]) - n_poly).const_term() >= 0 and shp[0] in n_poly.atoms()
            ok = nodes_ok and half_ok
            why = f"paired index = ({left.show(2)}) % ({right.show(2)}): modulus is the number of nodes: {nodes_ok}; offset is (number of customers) // 2: {half_ok}"
    ctx.ob("C01.m", f"{env.name}._step:pairing", ok, sl.where, why, construct=f"{sl.fi.qualname}:pairing")


def rule_n(ctx: Ctx, env: EnvA):
    """C01.n MDCPDP carry bookkeeping and depot flags (the env has no solution checker, so its
    node-type tests are the only guard of the capacity rule): carry' = carry + [D <= a < split]
    - [a >= split] with split = n // 2 + D; back_flag = (a < D) & (available[a] == 0);
    current_depot' = where(back_flag, a, current_depot)."""
    if env.name != "MDCPDPEnv":
        return
    sl = env.slot("_step")
    name = sl.td.name
    carry = sl.cell("current_carry")
    p = nf.poly(carry) - nf.poly(vg.mk("cell0", name, "current_carry"))
    mon = p.monos()
    ok, why = False, f"carry' - carry = {p.show(2)[:160]}"
    if len(mon) == 2 and sorted(c for c, _ in mon) == [-1, 1]:
        plus = [fs[0][0] for c, fs in mon if c == 1 and len(fs) == 1]
        minus = [fs[0][0] for c, fs in mon if c == -1 and len(fs) == 1]
        if plus and minus:
            def forms(node):
                return sorted((l.cmp()[0].show(3), l.cmp()[1]) for l in nf.boolwalk(node, T.BOOL_CELLS) if l.cmp() is not None and l.conj)

            def sig(node):
                out = []
                for l in nf.boolwalk(node, T.BOOL_CELLS):
                    c = l.cmp()
                    if c is None or not l.conj:
                        return None
                    pos = any("action" in vg.cells_of(a) for a in c[0].side_atoms(True))
                    neg = any("action" in vg.cells_of(a) for a in c[0].side_atoms(False))
                    halves = any(a.op == "//" for a in c[0].atoms())
                    out.append(("a>=" if pos else "a<", "split" if halves else "depots", c[1]))
                return sorted(out)
            sp, sm = sig(plus[0]), sig(minus[0])
            ok = sp == sorted([("a<", "split", ">0"), ("a>=", "depots", ">=0")]) and sm == [("a>=", "split", ">=0")]
            why = f"carry' = carry + [{forms(plus[0])}] - [{forms(minus[0])}]: pickup = depots <= a < split, delivery = a >= split: {ok}"
    ctx.ob("C01.n", "MDCPDPEnv._step:carry", ok, sl.where, why, construct="MDCPDPEnv._step:carry-update")
    dep = nf.strip(sl.cell("current_depot"))
    okd, whyd = False, "current_depot is not where(action is a depot, action, current_depot)"
    if nf._fn(dep) == "torch.where" and len(dep.args) == 4:
        cnd, a, b = dep.args[1:]
        lv = nf.boolwalk(cnd, T.BOOL_CELLS)
        is_depot = [l for l in lv if l.cmp() is not None and l.conj and l.sign > 0 and l.cmp()[1] == ">0" and any("action" in vg.cells_of(x) for x in l.cmp()[0].side_atoms(False))
                    and not any(x.op == "//" for x in l.cmp()[0].atoms())]
        # a tour belongs to the depot it starts from: EVERY move onto a depot (a fresh one that opens the next tour as well as
        # the return to the own depot) sets current_depot; a further condition (e.g. `already visited`) freezes it at the first depot
        not_depot = [l for l in lv if l.cmp() is not None and l.conj and l.sign > 0 and l.cmp()[1] == ">=0" and any("action" in vg.cells_of(x) for x in l.cmp()[0].side_atoms(True))
                     and not any("action" in vg.cells_of(x) for x in l.cmp()[0].side_atoms(False)) and not any(x.op == "//" for x in l.cmp()[0].atoms())]
        if not is_depot and len(not_depot) == 1 and len(lv) == 1:
            a, b = b, a                       # where(a >= D, current_depot, a)
            is_depot = not_depot
        only = len(lv) == 1 and len(is_depot) == 1
        okd = only and "action" in vg.cells_of(a) and "current_depot" not in vg.cells_of(a) and nf.strip(b).op == "cell0" and nf.strip(b).args[1] == "current_depot"
        whyd = (f"current_depot' = where(a < D, a, current_depot): depot test {bool(is_depot)}, no further condition {only} "
                f"({len(lv)} literal(s) in the switch condition)")
    ctx.ob("C01.n", "MDCPDPEnv._step:current_depot", okd, sl.where, whyd, construct="MDCPDPEnv._step:current-depot")


class CutThrough(Exception):
    pass


class _ColEval:
    """Three-valued value of a boolean mask at ONE column class, followed through column-slice stores, slice reads and
    scatter / gather on a designated index (the current depot).  Columns are split at symbolic boundaries b1 < b2 (number of
    depots, pickup/delivery split); classes: 'odepot', 'cdepot' in [0, b1), 'pickup' in [b1, b2), 'delivery' in [b2, end)."""

    SPAN = {"odepot": (0, 1), "cdepot": (0, 1), "pickup": (1, 2), "delivery": (2, 3)}

    def __init__(self, b1: vg.S, cur_idx_ids, assume):
        self.b1 = nf.poly(b1)
        self.cur = cur_idx_ids
        self.assume = assume
        self.unknown = []
        self.free = {}          # node id -> value: comparisons the flag table does not know, enumerated by the caller
        self.free_seen = {}

    def _pos(self, x, is_hi):
        if x is None or vg.is_none(x):
            return 3 if is_hi else 0
        if vg.is_const(x, 0) and not is_hi:
            return 0
        p = nf.poly(x)
        if p == self.b1:
            return 1
        # b2 = b1 + (N - b1) // 2 with N the number of rows of `locs` (depots, pickups, deliveries): the first delivery column
        rest = p - self.b1
        if len(rest.terms) == 1:
            (mono, coef), = rest.terms.items()
            if coef == 1 and len(mono) == 1 and mono[0][1] == 1:
                a = nf.Poly.ATOMS[mono[0][0]]
                if a.op == "//" and vg.is_const(a.args[1], 2):
                    num = nf.poly(a.args[0]) + self.b1
                    if len(num.terms) == 1:
                        (m2, c2), = num.terms.items()
                        if c2 == 1 and len(m2) == 1 and m2[0][1] == 1:
                            d = nf.dim_of(nf.Poly.ATOMS[m2[0][0]])
                            if d is not None and nf.strip(d[0]).op == "cell0" and nf.strip(d[0]).args[1] == "locs" and d[1] in (-2, 1):
                                return 2
        if any(a.op == "//" for a in p.atoms()) or (p - self.b1).is_const():
            raise CutThrough(f"column boundary {vg.show(x, 4)} is not one of the class boundaries (0 | number of depots | first delivery | end): "
                             "the slice cuts through a column class, so some columns of the class are treated differently from the rest")
        raise AnalysisError(f"MDCPDP mask: column boundary {vg.show(x, 3)} not understood")

    def _covers(self, idx, cls):
        items = idx.args if idx.op == "tuple" else (idx,)
        last = items[-1]
        if not all(x.op == "ellipsis" or (x.op == "slice" and all(vg.is_none(y) for y in x.args)) for x in items[:-1]):
            raise AnalysisError(f"MDCPDP mask: index {vg.show(idx, 3)} not a last-axis column slice")
        if last.op != "slice":
            raise AnalysisError(f"MDCPDP mask: index {vg.show(idx, 3)} not a column slice")
        lo, hi = self._pos(last.args[0], False), self._pos(last.args[1], True)
        a, b = self.SPAN[cls]
        if lo <= a and hi >= b:
            return True
        if hi <= a or lo >= b:
            return False
        raise AnalysisError(f"MDCPDP mask: slice {vg.show(idx, 3)} cuts through column class {cls}")

    def ev(self, n, cls, depth=0):
        if depth > 200:
            return None
        n = nf.strip(n, True)
        v = self.assume(n)
        if v is not None:
            return v
        d = depth + 1
        if n.op == "const" and isinstance(n.args[0], (bool, int)):
            return bool(n.args[0])
        if n.op in ("inv", "not"):
            x = self.ev(n.args[0], cls, d)
            return None if x is None else (not x)
        c = nf._connective(n)
        if c is not None:
            kind, kids = c
            vals = [self.ev(k, cls, d) for k in kids]
            if kind == "and":
                return False if any(x is False for x in vals) else (True if all(x is True for x in vals) else None)
            return True if any(x is True for x in vals) else (False if all(x is False for x in vals) else None)
        if n.op == "store":
            base, idx, val = n.args
            return self.ev(val if self._covers(idx, cls) else base, cls, d)
        if n.op == "sub":
            if isinstance(n.args[1], vg.S) and (n.args[1].op == "tuple" or n.args[1].op == "slice"):
                self._covers(n.args[1], cls)       # reading a slice keeps the class (checked for being understood)
            return self.ev(n.args[0], cls, d)
        if n.op == "meth" and n.args[1] in ("scatter_", "scatter") and len(n.args) == 5:
            idx, src = n.args[3], n.args[4]
            if nf.strip(idx).id in self.cur or idx.id in self.cur:
                return self.ev(src, cls, d) if cls == "cdepot" else self.ev(n.args[0], cls, d)
            self.unknown.append(vg.show(n, 3))
            return None
        if n.op == "meth" and n.args[1] == "gather" and len(n.args) == 4:
            idx = n.args[3]
            if nf.strip(idx).id in self.cur or idx.id in self.cur:
                return self.ev(n.args[0], "cdepot", d)
            self.unknown.append(vg.show(n, 3))
            return None
        if nf.cmpnf(n) is not None:
            self.free_seen[n.id] = vg.show(n, 3)
            if n.id in self.free:
                return self.free[n.id]
            return None
        self.unknown.append(vg.show(n, 3))
        return None


def mdcpdp_mask_classes(ctx: Ctx, env: EnvA, direction: str = "looser"):
    """C01.p MDCPDP mask by column class (the env has no solution checker: these tests are the only guard).  With
    a = available, t = to_deliver (for the column), b = back at an already used depot, c = carry has reached the capacity,
    k = carrying, l = no unvisited depot left, d = done:
        other depot   : a & t & b & ~l & ~k        current depot : (~b & ~l & ~k) | d
        pickup        : a & t & ~c & ~b            delivery      : a & t & ~b
    decided for all 2^7 flag assignments by three-valued evaluation through the column-slice stores."""
    if env.name != "MDCPDPEnv":
        return
    import itertools
    sl = env.slot("_step")
    root = sl.cell("action_mask")
    dep = nf.strip(sl.cell("current_depot"))
    cur_ids = {dep.id, sl.cell("current_depot").id}
    # back flag: (the chosen node is a depot) & (it had been visited before this step)
    back = None
    for n in vg.walk(root):
        c = nf._connective(nf.strip(n, True))
        if c is None or c[0] != "and" or len(c[1]) != 2:
            continue
        lv = nf.boolwalk(n, T.BOOL_CELLS)
        if len(lv) != 2 or not all(l.cmp() is not None and l.conj and l.sign > 0 for l in lv):
            continue
        # `action < D`, i.e. D - action > 0: the action sits on the negative side (`action > D` has the same operator after normalisation)
        isdep = [l for l in lv if l.cmp()[1] == ">0" and vg.cells_of(l.node) >= {"action"} and "available" not in vg.cells_of(l.node)]
        seen_ = [l for l in lv if l.cmp()[1] == "==0" and {"available", "action"} <= vg.cells_of(l.node)]
        if len(isdep) == 1 and len(seen_) == 1:
            back = nf.strip(n, True)
            back_dep = isdep[0]
    if back is None:
        raise AnalysisError("MDCPDPEnv._step: back flag (action < D) & (available[action] == 0) not found in the mask")
    side_ok = any("action" in vg.cells_of(x) for x in back_dep.cmp()[0].side_atoms(False)) and not any("action" in vg.cells_of(x) for x in back_dep.cmp()[0].side_atoms(True))
    ctx.ob("C01.n", "MDCPDPEnv._step:back-flag:action-below-the-depot-count", side_ok, sl.where,
           f"back flag tests {back_dep.cmp()[0].show(2)} > 0" + ("" if side_ok else " -- the action must be BELOW the number of depots (`action > D` marks customers as depot returns: loads and lengths are settled at the wrong nodes)"),
           construct="MDCPDPEnv._step:back-flag:side")
    b1 = None
    for n in vg.walk(root):
        d_ = nf.dim_of(n)
        if d_ is not None and "capacity" in vg.cells_of(d_[0]) and d_[1] in (-1, 1):
            b1 = n
    if b1 is None:
        raise AnalysisError("MDCPDPEnv._step: number of depots (capacity.shape[-1]) not found in the mask")
    if direction == "looser":
        # the boundary the step uses for `is a depot` must be the number of depot rows _reset puts in front of the customers
        from .. import symshape
        from ..envs import generator_slot
        g, gsl = generator_slot(ctx.repo, env.cls)
        rs = env.slot("_reset")
        okb, whyb = False, "reset layout locs = cat((depot, locs), -2) not found"
        if gsl is not None and isinstance(gsl.fr.ret, vg.TD) and rs is not None and rs.td is not None:
            SS = symshape.SymShape([rs.td.cells, gsl.fr.ret.cells])
            d_ = nf.dim_of(b1)
            have = SS.dim(d_[0], d_[1]) if d_ is not None and isinstance(d_[1], int) and d_[1] < 0 else None
            lay = nf.strip(rs.td.cells.get("locs")) if rs.td.cells.get("locs") is not None else None
            want = None
            if lay is not None and nf._fn(lay) in ("torch.cat", "torch.concat"):
                items = nf._seq_items(lay.args[1])
                ax = nf.axis_arg(lay)
                if items and len(items) == 2 and ax is not None and vg.is_const(ax, -2):
                    SS.level = 1
                    want = SS.dim(items[0], -2)
                    SS.level = 0
            if have is not None and want is not None:
                okb = have == want
                whyb = f"`is a depot` boundary {vg.show(b1, 3)} = {have.show(3)}; depot rows in the reset layout = {want.show(3)}"
            else:
                whyb = f"boundary {have.show(3) if have is not None else 'unresolved'} / depot rows {want.show(3) if want is not None else 'unresolved'}"
        ctx.ob("C01.n", "MDCPDPEnv._step:depot-boundary", okb, sl.where, whyb, construct="MDCPDPEnv._step:depot-boundary")

    def make_assume(f):
        def assume(n):
            if n.id == back.id:
                return f["b"]
            if n.op == "meth" and n.args[1] in ("scatter", "scatter_") and nf.strip(n.args[0]).op == "cell0":
                key = nf.strip(n.args[0]).args[1]
                if key == "available":
                    return f["a"]
                if key == "to_deliver":
                    return f["t"]
            if n.op == "cell0" and n.args[1] in ("available", "to_deliver"):
                return f["a"] if n.args[1] == "available" else f["t"]
            c = nf.cmpnf(n)
            if c is None:
                return None
            P, op = c
            cells = set()
            for a_ in P.atoms():
                cells |= vg.cells_of(a_)
            txt_atoms = P.atoms()
            if any(nf._fn(a_) == "torch.count_nonzero" or (a_.op == "meth" and a_.args[1] == "count_nonzero") for a_ in txt_atoms):
                return f["d"] if op == "==0" else ((not f["d"]) if op == "!=0" else None)
            if any((nf._fn(a_) == "torch.sum" or (a_.op == "meth" and a_.args[1] == "sum")) and "available" in vg.cells_of(a_) for a_ in txt_atoms):
                return f["l"] if op == "==0" else ((not f["l"]) if op == "!=0" else None)
            if "current_carry" in cells and "capacity" in cells:
                pos, neg = nf.sided_cells(P)
                if "current_carry" in pos and "capacity" in neg and op == ">=0":
                    return f["c"]
                if "capacity" in pos and "current_carry" in neg and op == ">0":
                    return not f["c"]
                return None
            if "current_carry" in cells and "capacity" not in cells:
                pos, neg = nf.sided_cells(P)
                if "current_carry" in pos and op == ">0" and P.const_term() == 0:
                    return f["k"]
                if "current_carry" in neg and op == ">=0" and P.const_term() == 0:
                    return not f["k"]
                # carry >= 0 is implied by carry > 0 (and carry < 0 excluded by it); otherwise a free comparison
                if "current_carry" in pos and op == ">=0" and P.const_term() == 0 and f["k"]:
                    return True
                if "current_carry" in neg and op == ">0" and P.const_term() == 0 and f["k"]:
                    return False
                return None
            return None
        return assume

    REF = {
        "odepot": lambda f: f["a"] and f["t"] and f["b"] and not f["l"] and not f["k"],
        "cdepot": lambda f: ((not f["b"]) and not f["l"] and not f["k"]) or f["d"],
        "pickup": lambda f: f["a"] and f["t"] and not f["c"] and not f["b"],
        "delivery": lambda f: f["a"] and f["t"] and not f["b"],
    }
    names = "atbcklD".lower()
    names = ["a", "t", "b", "c", "k", "l", "d"]
    try:
        for cls in REF:
            _ColEval(b1, cur_ids, make_assume(dict.fromkeys(names, False))).ev(root, cls)
    except CutThrough as e:
        rid = "C01.p" if direction == "looser" else "C05.e"
        ctx.ob(rid, "MDCPDPEnv.mask:column-classes-uniform", False, sl.where, str(e), construct="MDCPDPEnv._step:mask-class:cut-through")
        return
    for cls, ref in REF.items():
        bad, undec, unk = [], 0, []
        for bits in itertools.product([False, True], repeat=len(names)):
            f = dict(zip(names, bits))
            E = _ColEval(b1, cur_ids, make_assume(f))
            v = E.ev(root, cls)
            r = bool(ref(f))
            vals = [v]
            if v is None and E.free_seen and not E.unknown and len(E.free_seen) <= 3:
                # comparisons outside the flag table: a free truth value each
                ids = sorted(E.free_seen)
                vals = []
                for fb in itertools.product([False, True], repeat=len(ids)):
                    E2 = _ColEval(b1, cur_ids, make_assume(f))
                    E2.free = dict(zip(ids, fb))
                    vals.append(E2.ev(root, cls))
            for v in vals:
                if v is None:
                    undec += 1
                    unk = unk or (E.unknown[:2] or list(E.free_seen.values())[:2])
                elif direction == "looser" and v and not r:
                    bad.append("".join(k if f[k] else "-" for k in names) + " offered")
                elif direction == "tighter" and r and not v:
                    bad.append("".join(k if f[k] else "-" for k in names) + " hidden")
        if direction == "looser":
            # C01: nothing is offered that the reference forbids; an undetermined entry cannot be shown to be forbidden
            ok = not bad and undec == 0
            ctx.ob("C01.p", f"MDCPDPEnv.mask:{cls}-columns", ok, sl.where,
                   f"no assignment of (available, to_deliver, back, cap-full, carrying, last-depot, done) out of {2 ** len(names)} opens a column the reference closes"
                   if ok else (f"{len(bad)} assignment(s) open a column the reference closes, e.g. {bad[:3]}" if bad else f"{undec} assignment(s) undetermined: {unk}"),
                   construct=f"MDCPDPEnv._step:mask-class:{cls}")
        else:
            # C05: nothing the reference allows is hidden (decided entries only; undetermined ones are C01.p's report)
            ctx.ob("C05.e", f"MDCPDPEnv.mask:{cls}-columns", not bad, sl.where,
                   f"no assignment closes a column the reference opens ({2 ** len(names) - undec} decided)"
                   if not bad else f"{len(bad)} assignment(s) close a column the reference opens, e.g. {bad[:3]}",
                   construct=f"MDCPDPEnv._step:mask-class:{cls}:hidden")


CLOCK = {  # env -> (service-time cell, window cell)
    "CVRPTWEnv": ("durations", "time_windows"),
    "MTVRPEnv": ("service_time", "time_windows"),
}


def clock_update(ctx: Ctx, env: EnvA):
    """C01.t the vehicle's clock after serving customer a:  (a != depot) * ( max(clock + travel, window_start[a]) + service[a] ).
    Service starts when the vehicle has arrived AND the window is open, and lasts `service[a]` from then on: the service
    time is added to the maximum, it is not an operand of it (max(arrival + service, start) loses the service time whenever
    the vehicle waits, and the mask then admits customers that are reached after their deadline)."""
    if env.name not in CLOCK:
        return
    svc, win = CLOCK[env.name]
    sl = env.slot("_step")
    ct = sl.cell("current_time")
    p = nf.poly(ct)
    ok, why = False, f"current_time' = {p.show(3)[:200]}"
    mons = list(p.terms.items())
    if len(mons) == 2 and all(c == 1 for _, c in mons):
        parts = []
        gates = []
        for m, _c in mons:
            atoms = [nf.Poly.ATOMS[a] for a, pw in m if pw == 1]
            g = [a for a in atoms if nf.cmpnf(a) is not None and "action" in vg.cells_of(a)]
            rest = [a for a in atoms if a not in g]
            if len(g) == 1 and len(rest) == 1 and len(atoms) == len(m):
                gates.append(g[0])
                parts.append(rest[0])
        if len(parts) == 2 and gates[0] is gates[1]:
            mx = [a for a in parts if nf._fn(a) in ("torch.max", "torch.maximum") or (a.op == "meth" and a.args[1] == "maximum")]
            sv = [a for a in parts if a not in mx]
            if len(mx) == 1 and len(sv) == 1:
                ops_ = [x for x in (mx[0].args[1:] if mx[0].op == "call" else [mx[0].args[0]] + list(mx[0].args[2:])) if isinstance(x, vg.S) and x.op != "kw"]
                sv_ok = vg.cells_of(sv[0]) == {svc, "action"}
                arr = [x for x in ops_ if "current_time" in vg.cells_of(x)]
                st_ = [x for x in ops_ if win in vg.cells_of(x) and "current_time" not in vg.cells_of(x)]
                arr_ok = len(arr) == 1 and svc not in vg.cells_of(arr[0]) and win not in vg.cells_of(arr[0])
                st_ok = len(st_) == 1 and vg.cells_of(st_[0]) == {win, "action"}
                gate_ok = nf.cmpnf(gates[0])[1] == "!=0"
                ok = len(ops_) == 2 and sv_ok and arr_ok and st_ok and gate_ok
                why = (f"(a != 0: {gate_ok}) * (max(arrival: {arr_ok}, window start: {st_ok}) + service time outside the max: {sv_ok})")
    ctx.ob("C01.t", f"{env.name}._step:clock", ok, sl.where, why, construct=f"{env.name}._step:clock-formula")


def open_route_gating(ctx: Ctx, env: EnvA, sl, root):
    """C01.v MTVRP distance limit: an open route saves the way BACK to the depot only.  In the limit test the leg from the
    current node to the candidate is always charged (its monomial carries no open_route factor) and the leg candidate -> depot
    is charged exactly when the route is closed (every monomial with that leg carries the `~open_route` factor)."""
    lits = [l for l in nf.boolwalk(root, T.BOOL_CELLS) if l.cmp() is not None and "distance_limit" in vg.cells_of(l.node)]
    if not lits:
        raise AnalysisError("MTVRPEnv.get_action_mask: distance-limit comparison not found")
    bad, n_out, n_ret = [], 0, 0
    for l in lits:
        P = l.cmp()[0]
        for m, c in P.terms.items():
            atoms = [nf.Poly.ATOMS[a] for a, _pw in m]
            legs = [a for a in atoms if nf._fn(a) in nf.DIST_FN or (a.op == "meth" and a.args[1] == "norm")]
            gate = [a for a in atoms if "open_route" in vg.cells_of(a) and a not in legs]
            for leg in legs:
                out = "current_node" in vg.cells_of(leg)
                if out:
                    n_out += 1
                    if gate:
                        bad.append(f"the leg current -> candidate is multiplied by {vg.show(gate[0], 2)}: on open routes it is not charged")
                else:
                    n_ret += 1
                    neg = [g for g in gate if g.op in ("inv", "not") or (nf.cmpnf(g) is not None)]
                    if not gate:
                        bad.append("the leg candidate -> depot is charged on open routes too")
                    elif not neg:
                        bad.append(f"the leg candidate -> depot is gated by {vg.show(gate[0], 2)} instead of its negation")
    ok = not bad and n_out >= 1 and n_ret >= 1
    ctx.ob("C01.v", "MTVRPEnv.mask:distance-limit:open-route-gating", ok, sl.where,
           f"{n_out} outgoing-leg term(s) ungated, {n_ret} return-leg term(s) gated by ~open_route" if ok else ("; ".join(bad[:2]) or "legs of the limit test not identified"),
           construct="MTVRPEnv.get_action_mask:distance-limit:gating")


CONFIGURED = {  # env -> {state cell written by _reset: documented generator parameter it must carry}
    "PCTSPEnv": {"prize_required": "prize_required"},
    "SPCTSPEnv": {"prize_required": "prize_required"},
}


def configured_requirements(ctx: Ctx, env: EnvA):
    """C01.w a requirement that is a documented generator parameter reaches the state as configured: the cell `_reset` writes
    is built from `self.generator.<parameter>` (or taken from the instance), not from a literal."""
    for cell, attr in CONFIGURED.get(env.name, {}).items():
        rs = env.slot("_reset")
        v = rs.cell(cell)
        if v is None:
            raise AnalysisError(f"{env.name}._reset does not write {cell}")
        attrs = set()
        for n in vg.walk(v):
            if n.op == "selfattr":
                attrs.add(n.args[0])
            if n.op == "attr" and vg.show(n, 3).startswith("self.generator."):
                attrs.add("generator." + n.args[1])
        from_inst = cell in vg.cells_of(v)
        ok = from_inst or any(a.split(".")[-1] == attr and "generator" in a for a in attrs)
        ctx.ob("C01.w", f"{env.name}._reset:{cell}", ok, rs.where,
               f"{cell} = {vg.show(v, 3)[:120]}: carries self.generator.{attr}: {ok}" if ok else
               f"{cell} = {vg.show(v, 3)[:120]}: a literal, the configured generator parameter `{attr}` never reaches the mask / checker that read td['{cell}']",
               construct=f"{env.name}._reset:configured:{cell}")


def no_config_sizes_at_step_time(ctx: Ctx, env: EnvA, rule_id: str = "C01.x", methods=("_step", "get_action_mask", "_get_reward", "check_solution_validity")):
    """C01.x (step-time half) the transition, the mask, the reward and the checker size their index arithmetic from the instance
    they are given (`td[...].shape`), never from `self.generator.num_*`: one env object is routinely driven with instances of
    another size, for which a configured stride / clamp bound silently addresses the wrong customers.  On today's tree no
    constructive env reads a generator size in these methods (expected count zero; positive controls in the corpus)."""
    import ast
    for meth in methods:
        try:
            fi = env.resolve(meth)
        except Exception:
            fi = None
        if fi is None:
            continue
        ctx.fn(fi)
        reads = [n for n in ast.walk(fi.node) if isinstance(n, ast.Attribute) and (n.attr.startswith("num_") or n.attr.startswith("n_")) and isinstance(n.value, ast.Attribute) and n.value.attr == "generator"
                 and isinstance(n.value.value, ast.Name) and n.value.value.id == "self"]
        ctx.ob(rule_id, f"{env.name}.{meth}:sizes-from-the-instance", not reads, fi.loc,
               "no read of self.generator.<size> in this method" if not reads else
               f"`{ast.unparse(reads[0])}` (line {reads[0].lineno}): a size of the env's configuration is used where the instance's own size is needed",
               construct=f"{env.name}.{meth}:config-size")


def instance_sized_state(ctx: Ctx, env: EnvA, rule_id: str = "C01.x", keys=("action_mask", "available", "visited", "to_deliver")):
    """C01.x the per-node state of a freshly reset instance (mask, availability / visited / to-deliver flags) has one entry
    per node OF THAT INSTANCE: the size tuples of its constructors are taken from the incoming TensorDict's tensors, not from
    `self.generator.<size>`.  One env object is routinely reset with instances of another size (generalisation tests, dataset
    files); with configuration-sized cells a larger instance silently ends after `generator.num_loc` nodes."""
    from .. import symshape
    rs = env.slot("_reset")
    if rs is None or rs.td is None:
        return
    for key in keys:
        v = rs.td.cells.get(key)
        if v is None:
            continue
        gen, n_ctor = set(), 0
        for n in vg.walk(v):
            if nf._fn(n) in symshape.CTORS:
                n_ctor += 1
                for it_ in symshape.SymShape._size_items(n) or []:
                    if isinstance(it_, vg.S):
                        for a in vg.walk(it_):
                            if a.op == "selfattr" and str(a.args[0]).startswith("generator."):
                                gen.add("self." + a.args[0])
                            elif a.op == "attr" and isinstance(a.args[0], vg.S) and a.args[0].op == "selfattr" and a.args[0].args[0] == "generator":
                                gen.add("self.generator." + a.args[1])
        if not n_ctor:
            continue
        ctx.ob(rule_id, f"{env.name}._reset:{key}:sized-from-the-instance", not gen, rs.where,
               f"{key} is built with sizes taken from the instance" if not gen else
               f"{key} is built with {sorted(gen)}: an instance of another size than the env's generator is configured for gets a mask / flag vector of the wrong width "
               "(a larger instance silently ends after that many nodes, a smaller one indexes out of range)",
               construct=f"{env.name}._reset:{key}:sized-from:" + ",".join(sorted(gen)))


def svrp_last_technician(ctx: Ctx, env: EnvA, sl, root):
    """C01.s SVRP: the depot is closed while customers remain if the vehicle is at the depot OR the current technician is the
    last one (index n_tech - 1, n_tech = techs.size(-2)): returning would advance `current_tech` past the last technician."""
    leaves = nf.boolwalk(root, T.BOOL_CELLS)
    last = [l for l in leaves if l.cmp() is not None and l.cmp()[1] in ("==0", "!=0") and "current_tech" in vg.cells_of(l.node)]
    atdep = [l for l in leaves if l.cmp() is not None and l.cmp()[1] in ("==0", "!=0") and vg.cells_of(l.node) == {"current_node"}]
    ok, why = False, f"last-technician literal not found ({len(last)} candidates)"
    if len(last) == 1:
        P = last[0].cmp()[0]
        # P = +-(current_tech - n_tech + 1)
        atoms = P.atoms()
        dims = [nf.dim_of(a) for a in atoms]
        n_ax = [d for d in dims if d is not None and "techs" in vg.cells_of(d[0]) and d[1] in (-2, 1)]
        cur = [a for a in atoms if "current_tech" in vg.cells_of(a)]
        if len(n_ax) == 1 and len(cur) == 1 and len(atoms) == 2:
            nat = [a for a, d in zip(atoms, dims) if d is not None][0]
            want = nf.Poly.atom(cur[0]) - nf.Poly.atom(nat) + nf.Poly.const(1)
            ok = P == want or P == -want
            why = f"last technician test is {P.show(3)} == 0 (reference: current_tech - techs.size(-2) + 1): {ok}"
            if ok and atdep:
                op = nf.lca_op(last[0], atdep[0])
                # both literals sit under one negation (the depot column is ~mask_depot): effective connective of the admit form
                ok = op == ("and" if last[0].sign < 0 else "or")
                why += f"; combined with 'at the depot' by {'OR (before negation)' if ok else op}"
    ctx.ob("C01.s", "SVRPEnv.mask:last-technician-index", ok, sl.where, why, construct=f"{sl.fi.qualname}:last-technician:index")


def _action_gathers(sl):
    """(node, source, index) of every gather_by_index / .gather in the values a slot stores"""
    seen = set()
    for r in [v for v in sl.td.cells.values() if isinstance(v, vg.S)]:
        for n in vg.walk(r):
            if n.id in seen:
                continue
            seen.add(n.id)
            f = nf._fn(n) or ""
            if f.endswith("gather_by_index"):
                a = [x for x in n.args[1:] if not (isinstance(x, vg.S) and x.op == "kw")]
                kw = {x.args[0]: x.args[1] for x in n.args[1:] if isinstance(x, vg.S) and x.op == "kw"}
                yield n, kw.get("src", a[0] if a else None), kw.get("idx", a[1] if len(a) > 1 else None)
            elif n.op == "meth" and n.args[1] == "gather" and len(n.args) > 3:
                yield n, n.args[0], n.args[3]
            elif f == "torch.gather":
                a = [x for x in n.args[1:] if not (isinstance(x, vg.S) and x.op == "kw")]
                kw = {x.args[0]: x.args[1] for x in n.args[1:] if isinstance(x, vg.S) and x.op == "kw"}
                yield n, kw.get("input", a[0] if a else None), kw.get("index", a[2] if len(a) > 2 else None)


def action_index_space(ctx: Ctx, rid: str = "C01.o"):
    """C01.o the action IS the node index: in `_step` every per-node field gathered with an index built from `td["action"]` alone is
    read at `action` itself; the one accepted exception is the idiom for a field stored without a depot entry,
    `clamp(action - 1, 0, ...)`, whose shift is exactly -1.  Any other constant shift books the demand / prize / window of a
    neighbouring customer on the visit -- silently, since the index stays inside the tensor."""
    n_sites = 0
    for cname, (path, _fam) in T.ENVS.items():
        env = EnvA(ctx.repo, path, cname)
        sl = env.slot("_step")
        if sl is None or not env.own("_step") and cname != "CVRPTWEnv":
            continue
        ctx.fn(sl.fi)
        k = 0
        for n, src, idx in _action_gathers(sl):
            if not isinstance(idx, vg.S) or not isinstance(src, vg.S) or vg.cells_of(idx) != {"action"}:
                continue
            x = nf.strip(idx, True)
            clamped = False
            if nf._fn(x) == "torch.clamp" or (x.op == "meth" and x.args[1] == "clamp"):
                clamped = True
                x = nf.strip(x.args[1] if x.op == "call" else x.args[0], True)
            p = nf.poly(x)
            lin = [(m, c) for m, c in p.terms.items() if m]
            shift = p.const_term()
            pure = len(lin) == 1 and lin[0][1] == 1 and len(lin[0][0]) == 1 and lin[0][0][0][1] == 1
            ok = pure and ((not clamped and shift == 0) or (clamped and shift == -1))
            n_sites += 1
            cells = sorted(vg.cells_of(src))
            ctx.ob(rid, f"{cname}._step:{'+'.join(cells) or 'value'}#{k}:read-at-the-action", ok, (lambda t_: f"{t_[0]}:{t_[1]}" if isinstance(t_, tuple) else sl.where)(vg.site_of(n)),
                   f"{vg.show(src, 2)[:60]} is read at index {p.show(3)}" + (" (clamped: depot-less field)" if clamped else "") +
                   ("" if ok else " -- the visit is booked with another node's entry (expected `action`, or clamp(action - 1, 0, ..) for a field without depot entry)"),
                   construct=f"{cname}._step:gather:{'+'.join(cells)}:index-shift")
            k += 1
    if n_sites < 20:
        raise AnalysisError(f"C01.o: only {n_sites} action-indexed reads found in the routing envs' _step (24 confirmed by hand)")



def run(ctx: Ctx):
    registries = {
        "context": _registry(ctx, "rl4co/models/nn/env_embeddings/context.py", "env_context_embedding"),
        "init": _registry(ctx, "rl4co/models/nn/env_embeddings/init.py", "env_init_embedding"),
        "dynamic": _registry(ctx, "rl4co/models/nn/env_embeddings/dynamic.py", "env_dynamic_embedding"),
    }
    if min(len(v) for v in registries.values()) < 10:
        raise AnalysisError("embedding registries not found")
    torchrl_step_on_a_copy(ctx)
    mask_rows_decided_per_instance(ctx)
    subclass_switches_take_effect(ctx)
    op_lengths(ctx)
    depot_first_layout(ctx)
    sdvrp_delivers_what_fits(ctx)
    action_index_space(ctx)
    for cname, (path, family) in T.ENVS.items():
        env = EnvA(ctx.repo, path, cname)
        rule_a(ctx, env, family)
        sl, root = mask_root(env, family)
        ctx.fn(sl.fi)
        check_literals(ctx, "C01", env, sl, root, T.MASK[cname], "mask", "looser")
        bound_state_exact(ctx, "C01.y", env, T.MASK[cname], "looser")
        rule_c(ctx, env)
        rule_e(ctx, env)
        rule_f(ctx, env)
        rule_h(ctx, env)
        rule_g(ctx, env, registries)
        rule_k(ctx, env)
        rule_m(ctx, env)
        rule_n(ctx, env)
        mdcpdp_mask_classes(ctx, env)
        clock_update(ctx, env)
        configured_requirements(ctx, env)
        instance_sized_state(ctx, env)
        no_config_sizes_at_step_time(ctx, env)
        if cname == "SVRPEnv":
            svrp_last_technician(ctx, env, sl, root)
        if cname == "MTSPEnv":
            mtsp_agent_counter(ctx, env)
        if cname == "MTVRPEnv":
            open_route_gating(ctx, env, sl, root)
        if cname == "MTVRPEnv":
            # C01.u: the only env with a vehicle speed: clocks, windows and service times are times, legs and limits are lengths
            from .. import units
            for nm, floor in (("get_action_mask", 12), ("_step", 12), ("_reset", 8)):
                s_ = env.slot(nm)
                ctx.fn(s_.fi)
                units.obligations(ctx, "C01.u", f"{cname}.{nm}", s_.it, s_.fr, s_.where, floor)


def subclass_switches_take_effect(ctx: Ctx):
    """C01.v an environment variant that differs from its parent by a class-level switch (SPCTSPEnv._stochastic = True over
    PCTSPEnv._stochastic = False: which prize the step accumulates and the mask / checker compare) really gets its value: no
    class on its MRO assigns the same name on `self` in a method -- an instance attribute written by the parent's __init__
    shadows the subclass's class attribute, and the variant silently behaves like its parent.  All classes under rl4co/envs
    that re-declare a class attribute of an in-repo ancestor (or declare one an ancestor's method assigns on self)."""
    import ast
    n = 0
    for mi in ctx.repo.modules.values():
        if not mi.relpath.startswith("rl4co/envs/"):
            continue
        for ci in mi.classes.values():
            anc = [c for c in ctx.repo.mro(ci)[1:] if hasattr(c, "methods")]
            if not anc or not ci.class_attrs:
                continue
            for name in ci.class_attrs:
                if name.startswith("__"):
                    continue
                declared_above = any(name in a.class_attrs for a in anc)
                writers = []
                for a in anc:
                    for m in a.methods.values():
                        for st in ast.walk(m.node):
                            tg = []
                            if isinstance(st, ast.Assign):
                                tg = st.targets
                            elif isinstance(st, (ast.AugAssign, ast.AnnAssign)):
                                tg = [st.target]
                            for t in tg:
                                if isinstance(t, ast.Attribute) and isinstance(t.value, ast.Name) and t.value.id == "self" and t.attr == name:
                                    writers.append(f"{a.name}.{m.node.name}")
                if not declared_above and not writers:
                    continue
                n += 1
                ctx.ob("C01.v", f"{ci.name}.{name}:class-level-switch-takes-effect", not writers, f"{mi.relpath}:{ci.node.lineno}",
                       f"{ci.name}.{name} is read through the class" if not writers else
                       f"{sorted(set(writers))} assign self.{name}: the instance attribute shadows {ci.name}.{name}, the variant runs with its parent's value",
                       construct=f"{ci.name}.{name}:shadowed-by-instance-attribute")
    if n < 1:
        raise AnalysisError("no class-level switch re-declared by an environment subclass was found (SPCTSPEnv._stochastic expected)")


def op_lengths(ctx: Ctx, rid: str = "C01.l"):
    """C01.l (shared as C05.l / C06.v) OP keeps its length bookkeeping inline instead of through ops.get_distance:
      * every `.norm(...)` in OPEnv is applied to a DIFFERENCE of two coordinate expressions (the norm of a sum of two
        positions is not a distance), over the coordinate axis;
      * `_reset` stores, per node, the budget on ARRIVAL:  max_length - |depot - node| - eps  with 0 <= eps <= 1e-5 (sign-exact
        polynomial form: the return leg enters with coefficient -1);
      * the checker restores the instance's limit by ADDING the same leg back (+1) before comparing the tour length with it."""
    import ast
    env = EnvA(ctx.repo, T.ENVS["OPEnv"][0], "OPEnv")
    n_sites, bad = 0, []
    for mname, fi in sorted(env.cls.methods.items()):
        for c in ast.walk(fi.node):
            if isinstance(c, ast.Call) and isinstance(c.func, ast.Attribute) and c.func.attr == "norm":
                n_sites += 1
                recv = c.func.value
                while isinstance(recv, ast.Call) and ((isinstance(recv.func, ast.Attribute) and recv.func.attr == "abs" and not recv.args) or (ast.unparse(recv.func) == "torch.abs" and recv.args)):
                    recv = recv.func.value if isinstance(recv.func, ast.Attribute) and recv.func.attr == "abs" else recv.args[0]
                diff = isinstance(recv, ast.BinOp) and isinstance(recv.op, ast.Sub)
                dims = [k.value for k in c.keywords if k.arg == "dim"]
                axis = bool(dims) and isinstance(dims[0], (ast.Constant, ast.UnaryOp)) and ast.unparse(dims[0]) == "-1"
                if not (diff and axis):
                    bad.append(f"{mname}: {ast.unparse(c)[:70]} (line {c.lineno})")
    # each of the four places that measure a leg does so with a norm of a difference (or ops.get_distance): a leg measured some
    # other way (torch.dist: one number for the whole batch) is a violation, not an analysis problem
    for mname in ("_step", "_reset", "get_action_mask", "check_solution_validity"):
        fi_ = env.cls.methods.get(mname)
        if fi_ is None:
            raise AnalysisError(f"OPEnv.{mname} not found")
        has = any(isinstance(c, ast.Call) and ((isinstance(c.func, ast.Attribute) and c.func.attr == "norm") or (isinstance(c.func, ast.Name) and c.func.id in ("get_distance", "get_tour_length")))
                  for c in ast.walk(fi_.node))
        if not has:
            bad.append(f"{mname}: no leg is measured by a norm of a difference / get_distance")
    ctx.ob(rid, "OPEnv:legs-are-norms-of-differences", not bad, env.cls.methods["_step"].loc,
           f"{n_sites} inline norms, each of a difference over dim=-1: {not bad}" + ("" if not bad else f" -- {bad[0]}"), construct="OPEnv:norm-of-a-non-difference")
    # stored budget
    rs = env.slot("_reset")
    v = rs.cell("max_length")
    ok_b, why_b = False, "stored budget not resolved"
    if isinstance(v, vg.S):
        p_ = nf.poly(v)
        norms = [a for a in p_.atoms() if (a.op == "meth" and a.args[1] == "norm") or "norm" in (nf._fn(a) or "")]
        lim = [a for a in p_.atoms() if "max_length" in vg.cells_of(a) and a not in norms]
        c0 = p_.const_term()
        lin = len(norms) == 1 and len(lim) == 1 and p_ == nf.Poly.atom(lim[0]) - nf.Poly.atom(norms[0]) + nf.Poly.const(c0)
        ok_b = bool(lin and -1e-5 <= float(c0) <= 0)
        why_b = f"max_length' = {p_.show(3)[:110]}: limit (+1), return leg (-1), margin {float(c0):g} in [-1e-5, 0] -- {ok_b}"
    ctx.ob(rid, "OPEnv._reset:budget-on-arrival", ok_b, rs.where, why_b, construct="OPEnv._reset:max_length:formula")
    # checker restores the limit (value graph: robust against temporaries)
    ck = env.cls.methods.get("check_solution_validity")
    ok_c, why_c = False, "restoring expression not found"
    csl = env.slot("check_solution_validity")
    if ck is not None and csl is not None:
        ctx.fn(ck)
        for e in csl.events("assert"):
            if not isinstance(e.data, vg.S) or "max_length" not in vg.cells_of(e.data):
                continue
            for n in vg.walk(e.data):
                if n.op not in ("phi", "ifexp"):
                    continue
                for br in n.args[1:]:
                    if not isinstance(br, vg.S):
                        continue
                    try:
                        pb = nf.poly(br)
                    except Exception:
                        continue
                    nrm = [a_ for a_ in pb.atoms() if (a_.op == "meth" and a_.args[1] == "norm") or "norm" in (nf._fn(a_) or "")]
                    lim = [a_ for a_ in pb.atoms() if "max_length" in vg.cells_of(a_) and a_ not in nrm]
                    if len(nrm) == 1 and len(lim) == 1:
                        c0 = pb.const_term()
                        ok_c = pb == nf.Poly.atom(lim[0]) + nf.Poly.atom(nrm[0]) + nf.Poly.const(c0) and 0 <= float(c0) <= 1e-5
                        why_c = f"limit used by the checker = {pb.show(3)[:100]}: stored budget (+1), return leg (+1), margin {float(c0):g} -- {ok_c}"
    ctx.ob(rid, "OPEnv.checker:limit-restored", ok_c, ck.loc if ck is not None else env.cls.methods["_step"].loc, why_c, construct="OPEnv.check_solution_validity:limit-restored")


def depot_first_layout(ctx: Ctx, rid: str = "C01.i"):
    """C01.i (shared as C05.m) the depot is node 0: every per-node field that gets a depot entry in `_reset` receives it IN FRONT --
    `F.pad(x, (1, 0))` or `cat((zeros, x))`.  Padding at the end shifts the field by one node against `locs`: customer k is
    credited the prize of customer k + 1 and the last customer gets the depot's zero; mask and checker read the same shifted
    field, so the env stays self-consistent and only the instance's own optimum disappears."""
    import ast
    n = 0
    for cname, (path, family) in T.ENVS.items():
        ci = ctx.repo.get_class(path, cname)
        fi = ctx.repo.resolve_method(ci, "_reset")
        if fi is None:
            continue
        for c in ast.walk(fi.node):
            if isinstance(c, ast.Call) and ast.unparse(c.func) in ("F.pad", "torch.nn.functional.pad", "pad") and len(c.args) >= 2 and isinstance(c.args[1], (ast.Tuple, ast.List)):
                vals = [e.value if isinstance(e, ast.Constant) else None for e in c.args[1].elts]
                n += 1
                ok = len(vals) >= 2 and vals[0] == 1 and vals[1] == 0
                ctx.ob(rid, f"{cname}._reset:depot-entry-in-front#{n}", ok, fi.loc,
                       f"F.pad({ast.unparse(c.args[0])[:30]}, {tuple(vals)}): one entry in front of the last axis -- {ok}",
                       construct=f"{fi.qualname}:depot-entry-side:{n}")
            if isinstance(c, ast.Call) and ast.unparse(c.func) in ("torch.cat", "torch.concat") and c.args and isinstance(c.args[0], (ast.List, ast.Tuple)) and len(c.args[0].elts) == 2:
                a, b = c.args[0].elts
                za = isinstance(a, ast.Call) and ast.unparse(a.func) in ("torch.zeros_like", "torch.zeros")
                zb = isinstance(b, ast.Call) and ast.unparse(b.func) in ("torch.zeros_like", "torch.zeros")
                ctor = lambda e: isinstance(e, ast.Call) and ast.unparse(e.func).split(".")[-1] in ("ones", "zeros", "full", "ones_like", "zeros_like", "full_like", "arange")
                if (za or zb) and not (ctor(a) and ctor(b)):
                    n += 1
                    ctx.ob(rid, f"{cname}._reset:depot-entry-in-front#{n}", bool(za and not zb), fi.loc,
                           "cat((zeros, x)): the depot's zero comes first" if za and not zb else "cat((x, zeros)): the depot's zero is appended at the END",
                           construct=f"{fi.qualname}:depot-entry-side:{n}")
    if n < 3:
        raise AnalysisError(f"depot entries in _reset lost: {n} < 3")


def sdvrp_delivers_what_fits(ctx: Ctx):
    """C01.j SDVRP `_step`: the amount delivered at a stop is min(demand left at the node, capacity - load) on EVERY path -- the
    load written back is built from that one minimum, with no torch.where / conditional that hands out the whole demand on some
    branch (`the vehicle just left the depot, so it is empty` is false for a customer larger than one vehicle load)."""
    env = EnvA(ctx.repo, T.ENVS["SDVRPEnv"][0], "SDVRPEnv")
    sl = env.slot("_step")
    v = sl.cell("used_capacity")
    if not isinstance(v, vg.S):
        raise AnalysisError("SDVRPEnv._step: used_capacity not written")
    mins = {n.id for n in vg.walk(v) if nf._fn(n) in ("torch.min", "torch.minimum") and "vehicle_capacity" in vg.cells_of(n) and "used_capacity" in vg.cells_of(n)}
    conds = [n for n in vg.walk(v) if (nf._fn(n) == "torch.where" or n.op in ("ifexp", "phi")) and any(m_.id in mins for m_ in vg.walk(n))]
    ok = len(mins) == 1 and not conds
    ctx.ob("C01.j", "SDVRPEnv._step:delivers-what-fits", ok, sl.where,
           f"{len(mins)} min(demand left, capacity - load) in the new load; conditional around it: {bool(conds)}" +
           ("" if ok else " -- on the other branch the whole remaining demand is delivered, whatever the capacity"), construct="SDVRPEnv._step:delivered-amount")


def mask_rows_decided_per_instance(ctx: Ctx):
    """C01.w the mask and the done flag of the routing environments are computed row by row: every other C01 rule reads the
    mask as a per-instance truth table, and this discharges that premise with the batch-axis engine of C04 on the
    `action_mask` / `done` cells of `_step` and on the value of `get_action_mask` (a fleet size or a step flag read once for the
    whole batch offers instance b what instance 0 may do)."""
    from .C04 import batch_rows
    batch_rows(ctx, "C01.w", envs=tuple(T.ENVS), meths=("_step", "get_action_mask"),
               sink_ok=lambda cname, meth, sink: sink == "return" or sink in ("cell:action_mask", "cell:done"))


def mtsp_agent_counter(ctx: Ctx, env: EnvA, rid: str = "C01.s"):
    """C01.s mTSP: at most `num_agents` sub-tours.  The mask keeps the depot closed once `agent_idx` has reached num_agents - 1,
    so the counter has to count every return to the depot and nothing else: agent_idx' = agent_idx + [action == 0]."""
    sl = env.slot("_step")
    v = sl.cell("agent_idx")
    ok, why = False, "agent_idx' is not agent_idx + [action == depot]"
    if isinstance(v, vg.S):
        p = nf.poly(v)
        terms = list(p.terms.items())
        if len(terms) == 2 and all(len(m_) == 1 and m_[0][1] == 1 for m_, _ in terms):
            atoms = {nf.Poly.ATOMS[m_[0][0]]: c_ for m_, c_ in terms}
            old = [a for a in atoms if nf.strip(a).op == "cell0" and nf.strip(a).args[1] == "agent_idx"]
            ind = [a for a in atoms if a not in old]
            if len(old) == 1 and len(ind) == 1:
                x = nf.strip(ind[0], True)
                while x.op == "meth" and x.args[1] in ("long", "int", "float", "to"):
                    x = nf.strip(x.args[0], True)
                c = nf.cmpnf(x)
                at_depot = c is not None and c[1] == "==0" and c[0].const_term() == 0 and vg.cells_of(x) == {"action"}
                ok = atoms[old[0]] == 1 and atoms[ind[0]] == 1 and at_depot
                why = f"agent_idx' = {atoms[old[0]]} * agent_idx + {atoms[ind[0]]} * [{vg.show(x, 3)}]: counts exactly the returns to the depot -- {ok}"
    # ... starting from zero: no agent has returned when the episode begins (the mask compares with num_agents - 1, 0-based)
    rs = env.slot("_reset")
    v0 = nf.strip(rs.td.cells.get("agent_idx")) if rs is not None and rs.td is not None and isinstance(rs.td.cells.get("agent_idx"), vg.S) else None
    zero0 = v0 is not None and (nf._fn(v0) in ("torch.zeros", "torch.zeros_like") or (nf._fn(v0) in ("torch.full", "torch.full_like") and any(vg.is_const(a, 0) for a in v0.args[1:])))
    ctx.ob(rid, "MTSPEnv._reset:agent_idx:starts-at-zero", zero0, rs.where if rs is not None else sl.where,
           f"agent_idx at reset = {vg.show(v0, 2)[:60] if v0 is not None else None}" + ("" if zero0 else " -- the 0-based `agents left` test of the mask then allows one sub-tour fewer (or more) than there are agents"),
           construct="MTSPEnv._reset:agent_idx:init")
    ctx.ob(rid, "MTSPEnv._step:agent_idx:counts-depot-returns", ok, sl.where, why + ("" if ok else " -- the mask's `agents left` test then allows more sub-tours than agents (or fewer)"),
           construct="MTSPEnv._step:agent_idx:formula")


def torchrl_step_on_a_copy(ctx: Ctx):
    """C01.r in TorchRL mode `step` must leave the state it was given untouched (TorchRL writes the successor under "next"
    and callers keep using the input, e.g. to step it again).  Several `_step` implementations update state tensors in place
    (MDCPDP carry / length / arrival records, SVRP technician), so `_torchrl_step` has to hand `_step` a DEEP copy: a shallow
    `clone(recurse=False)` / `copy()` shares the tensors and the caller's load and clock change behind its back."""
    import ast
    cls = ctx.repo.get_class("rl4co/envs/common/base.py", "RL4COEnvBase")
    fi = cls.methods.get("_torchrl_step")
    if fi is None:
        raise AnalysisError("RL4COEnvBase._torchrl_step not found")
    ctx.fn(fi)
    p0 = fi.params()[1] if len(fi.params()) > 1 else None
    calls = [c for c in ast.walk(fi.node) if isinstance(c, ast.Call) and isinstance(c.func, ast.Attribute) and c.func.attr == "_step"
             and isinstance(c.func.value, ast.Name) and c.func.value.id == "self"]
    if len(calls) != 1 or not calls[0].args:
        raise AnalysisError("RL4COEnvBase._torchrl_step: expected one self._step(<state>) call")
    arg = calls[0].args[0]
    # resolve a local name to its single assignment
    if isinstance(arg, ast.Name) and arg.id != p0:
        defs = [st.value for st in ast.walk(fi.node) if isinstance(st, ast.Assign) and any(isinstance(t, ast.Name) and t.id == arg.id for t in st.targets)]
        if len(defs) == 1:
            arg = defs[0]
    deep = False
    why = ast.unparse(arg)[:60]
    if isinstance(arg, ast.Call) and isinstance(arg.func, ast.Attribute) and arg.func.attr == "clone":
        kw = {k.arg: k.value for k in arg.keywords}
        rec = kw.get("recurse", arg.args[0] if arg.args else None)
        deep = rec is None or (isinstance(rec, ast.Constant) and rec.value is True)
    elif isinstance(arg, ast.Call) and ast.unparse(arg.func) in ("copy.deepcopy", "deepcopy"):
        deep = True
    ctx.ob("C01.r", "RL4COEnvBase._torchrl_step:_step-works-on-a-deep-copy", deep, fi.loc,
           f"self._step({why}): deep copy of the caller's state -- {deep}" + ("" if deep else "; in-place state updates of _step (MDCPDP, SVRP, FFSP ...) reach the caller's tensors"),
           construct="RL4COEnvBase._torchrl_step:state-copy")
    torchrl_preset_never_overrides(ctx, "C01.r")


def torchrl_preset_never_overrides(ctx: Ctx, rid: str):
    """C01.r / C08.k what the caller had stored under "next" may only ADD keys to the successor state `_step` computed: every
    `<successor>.update(X)` in `_torchrl_step` takes X = <preset>.exclude(*<successor>.keys(...)).  A plain `update(<preset>)`
    puts the previous successor (a driver that keeps stepping the root tensordict carries it along) over the fresh one: mask,
    counters, bookkeeping and `done` stop advancing."""
    import ast
    cls = ctx.repo.get_class("rl4co/envs/common/base.py", "RL4COEnvBase")
    fi = cls.methods.get("_torchrl_step")
    if fi is None:
        raise AnalysisError("RL4COEnvBase._torchrl_step not found")
    ctx.fn(fi)
    succ = {t.id for st in ast.walk(fi.node) if isinstance(st, ast.Assign) for t in st.targets if isinstance(t, ast.Name)
            and any(isinstance(c, ast.Call) and isinstance(c.func, ast.Attribute) and c.func.attr in ("_step", "_step_proc_data") for c in ast.walk(st.value))}
    ups = [c for c in ast.walk(fi.node) if isinstance(c, ast.Call) and isinstance(c.func, ast.Attribute) and c.func.attr in ("update", "update_", "set", "set_")
           and isinstance(c.func.value, ast.Name) and c.func.value.id in succ]
    if not succ:
        raise AnalysisError("RL4COEnvBase._torchrl_step: successor state variable not found")
    bad = []
    for c in ups:
        x = c.args[0] if c.args else None
        ok = (c.func.attr == "update" and isinstance(x, ast.Call) and isinstance(x.func, ast.Attribute) and x.func.attr == "exclude" and len(x.args) == 1 and isinstance(x.args[0], ast.Starred)
              and isinstance(x.args[0].value, ast.Call) and isinstance(x.args[0].value.func, ast.Attribute) and x.args[0].value.func.attr == "keys"
              and isinstance(x.args[0].value.func.value, ast.Name) and x.args[0].value.func.value.id == c.func.value.id)
        if not ok:
            bad.append((c.lineno, ast.unparse(c)[:70]))
    ctx.ob(rid, "RL4COEnvBase._torchrl_step:preset-next-only-adds-keys", not bad, fi.loc,
           f"{len(ups)} write(s) into the computed successor state, each through <preset>.exclude(*<successor>.keys(..))" if not bad else
           f"the computed successor state is overwritten: {bad} -- stale entries carried under 'next' replace the fresh mask / counters / bookkeeping / done",
           construct="RL4COEnvBase._torchrl_step:preset-overrides-successor")


def run_thorough(ctx: Ctx):
    from ..selftest.corpus import for_prop
    from ..selftest.runner import run_corpus
    run_corpus(ctx, for_prop("C01"))
