"""C02 -- episodes terminate, no dead ends, finished stays finished.  Decided clauses:

C02.a  monotone bookkeeping: visited-like cells only switch on, available-like only off
C02.b  the padding action (depot / no-op) stays open: under "no other column is open" /
       "done" the mask provably has a true entry (three-valued evaluation of the mask's
       boolean structure)
C02.c  `done` is computed from the post-update completion state (or, for return-to-depot
       envs, from the action and the pre-increment counter; for quota envs from the
       pre-increment counter and the quota)
C02.d  FJSP/JSSP: every `_check_step_complete` (loop test) sees a mask recomputed from the
       state produced by the preceding time transition
C02.e  the decoding loops stop on `done.all()` and carry a max_steps cap
"""
from __future__ import annotations

import ast

from .. import nf, vg
from ..core import Ctx
from ..envs import EnvA, show_leaf
from ..model import AnalysisError
from ..tables import routing as T
from .C01 import mask_root, monotone, match_all

FLOOR = 155
EXPLANATION = (
    "Static analysis over all 21 env classes: (a) indicator cells are updated monotonically; (b) the boolean structure of each "
    "variable-length env's mask is evaluated three-valued under the assumption 'no other column open' / 'done' and must yield "
    "an open padding column; (c) the stored `done` is a function of the post-update completion cell (or action + pre-increment "
    "counter); (d) in FJSP/JSSP every loop test reads a mask recomputed after the time transition; (e) decoding loops test "
    "done.all() with a step cap. Structural necessary conditions; reachability of dead ends over runtime values and the step "
    "bounds themselves are not decided."
)
RULE = "one obligation per (env, clause); violation = non-monotone write, padding column not provably open, done from stale state, mask not refreshed before the loop test"


def leafset(root, sign=+1):
    out = set()
    for l in nf.boolwalk(root, T.BOOL_CELLS):
        if l.reduced:
            continue
        out.add((nf.norm(l.node).id, l.sign * sign))
    return out


def customer_part(s, sign=+1):
    """The non-padding columns of a mask expression (padding column is index 0)."""
    s = nf.strip(s, bool_ctx=True)
    if s.op in ("inv", "not"):
        return customer_part(s.args[0], -sign)
    fn = nf._fn(s)
    if fn in ("torch.cat", "torch.concat") and len(s.args) >= 2:
        items = nf._seq_items(s.args[1])
        if items and len(items) >= 2:
            return [(i, sign) for i in items[1:]]
    if s.op == "store":
        return customer_part(s.args[0], sign) or [(s.args[0], sign)]
    r = nf._cmp_raw(s)
    if r is not None and r[1] in (">", "!=") and vg.is_const(r[2], 0):
        return customer_part(r[0], sign)
    c = nf._connective(s)
    if c is not None:
        for k in c[1]:
            p = customer_part(k, sign)
            if p:
                return p
        return []
    return []


def exists_nodes(root, cust_ls):
    """Nodes meaning 'some non-padding column is open' -> assumed False (or its negation True)."""
    out = {}
    for n in vg.walk(root):
        r = nf._cmp_raw(n)
        if r is None:
            continue
        lhs, op, rhs = r
        if not vg.is_const(rhs, 0):
            continue
        L = nf.strip(lhs, bool_ctx=True)
        operand = None
        if L.op == "meth" and L.args[1] in ("sum", "any", "count_nonzero"):
            operand = L.args[0]
        elif nf._fn(L) in ("torch.sum", "torch.count_nonzero", "torch.any") and len(L.args) >= 2:
            operand = L.args[1]
        if operand is None:
            continue
        ols = leafset(operand)
        if cust_ls and cust_ls <= ols:
            if op in (">", "!="):
                out[n.id] = False
            elif op in ("==", "<="):
                out[n.id] = True
    for n in vg.walk(root):
        m = nf.strip(n, bool_ctx=True)
        operand = None
        if m.op == "meth" and m.args[1] == "any" and len(m.args) >= 2:
            operand = m.args[0]
        elif nf._fn(m) == "torch.any" and len(m.args) >= 2:
            operand = m.args[1]
        if operand is not None and cust_ls and cust_ls <= leafset(operand):
            out[m.id] = False
            out[n.id] = False
    return out


def all_visited_nodes(root):
    """PCTSP idiom: `visited[..., 1:].sum(-1) < visited[..., 1:].size(-1)` = 'an unvisited customer exists'."""
    out = {}
    for n in vg.walk(root):
        r = nf._cmp_raw(n)
        if r is None:
            continue
        lhs, op, rhs = r
        L, Rr = nf.strip(lhs, True), nf.strip(rhs, True)
        if op in (">", ">="):
            # mirrored form: size > sum
            L, Rr, op = Rr, L, {">": "<", ">=": "<="}[op]
        if op == "<" and L.op == "meth" and L.args[1] == "sum" and nf.dim_of(Rr) is not None:
            if "visited" in vg.cells_of(L) and nf.strip(L.args[0], True) is nf.strip(nf.dim_of(Rr)[0], True):
                out[n.id] = False
    return out


def rule_b(ctx: Ctx, env: EnvA):
    src, how, residual_names = T.PADDING[env.name]
    if src == "mask":
        sl, root = mask_root(env, "recompute")
        done_node = vg.mk("cell0", "td", "done")
    else:
        sl, root = mask_root(env, "incremental")
        done_node = sl.cell("done")
    ctx.fn(sl.fi)
    table = {}
    if how == "no-customer-open":
        parts = customer_part(root)
        if not parts:
            raise AnalysisError(f"{env.name}: cannot locate the non-padding columns of the mask")
        cls_ = set()
        for p, sg in parts:
            cls_ |= leafset(p, sg)
        table = exists_nodes(root, cls_)
        if not table:
            ctx.ob("C02.b", f"{env.name}:padding-open", False, sl.where,
                   "the padding (depot) column is never conditioned on 'some customer column of this same mask is open': "
                   "when every customer is masked the depot may be masked too (all-False row)",
                   construct=f"{sl.fi.qualname}:padding:no-exists-guard")
            return
    elif how == "all-visited":
        table = all_visited_nodes(root)
        if not table:
            ctx.ob("C02.b", f"{env.name}:padding-open", False, sl.where, "no 'unvisited customer exists' guard on the depot column",
                   construct=f"{sl.fi.qualname}:padding:no-exists-guard")
            return
    elif how == "done":
        if done_node is None:
            raise AnalysisError(f"{env.name}: done not written")
        table = {nf.strip(done_node, True).id: True, done_node.id: True}

    def assume(n):
        return table.get(n.id)

    res_lits = [l for l in T.MASK.get(env.name, []) if l.name in residual_names]

    def residual(node, sign):
        if not res_lits:
            return False
        leaves = [l for l in nf.boolwalk(node, T.BOOL_CELLS)]
        if len(leaves) != 1:
            return False
        m = match_all(leaves, res_lits)
        return any(v[0] is not None for v in m.values())

    ok = nf.row_nonempty(root, assume, +1, residual)
    if residual_names:
        ctx.assume(f"{env.name}: {T.PADDING_WHY.get(env.name, '')}")
    ctx.ob("C02.b", f"{env.name}:padding-open", ok, sl.where,
           f"under '{how}' the mask has an open column" if ok else
           f"cannot establish that the padding action stays open under '{how}': the mask may become all-False "
           f"(softmax over an empty row / decoding loop never ends for finished instances)",
           construct=f"{sl.fi.qualname}:padding:{how}")
    ctx.sample({"env": env.name, "padding_rule": how, "assumed_nodes": len(table), "ok": ok})


def rule_c(ctx: Ctx, env: EnvA):
    sl = env.slot("_step")
    ctx.fn(sl.fi)
    done = sl.cell("done")
    if done is None or (done.op == "cell0" and done.args[1] == "done"):
        raise AnalysisError(f"{env.name}._step does not write done")
    name = env.name
    if name in T.DONE_FROM:
        key = T.DONE_FROM[name]
        new = sl.cell(key)
        if new is None:
            raise AnalysisError(f"{name}: completion key {key} not in the final state")
        old = vg.mk("cell0", sl.td.name if sl.td else "td", key)
        # V = the updated versions of the cell: nodes of the final value that depend on the old
        # cell and are not a mere view of it
        V = set()
        for n in vg.walk(new):
            if n is old or old not in vg.atoms(n):
                continue
            v = nf.strip(n, bool_ctx=True)
            while v.op == "sub":
                v = nf.strip(v.args[0], bool_ctx=True)
            if v is old:
                continue
            V.add(n.id)
        uses_new = False
        stale = False
        for n in vg.walk(done, stop=lambda n: n.id in V):
            if n.id in V:
                uses_new = True
            elif n is old:
                stale = True
        ok = uses_new and not stale and new is not old
        why = f"done = {vg.show(done, 3)} reads the post-update '{key}'" if ok else (
            f"done is computed from the pre-update '{key}' (one step late)" if stale else f"done does not depend on the updated '{key}'")
        ctx.ob("C02.c", f"{name}._step:done<-{key}", ok, sl.where, why, construct=f"{sl.fi.qualname}:done:stale:{key}")
        if key != "job_done":  # FJSP/JSSP: `done = job_done'.all(1)` is checked inside _transit_to_next_time (C07.d)
            done_form(ctx, name, sl, done, key)
    elif name in T.DONE_RETURN:
        key = T.DONE_RETURN[name]
        cells = vg.cells_of(done)
        newi = sl.cell(key)
        uses_new_i = newi is not None and newi.op != "cell0" and any(n.id == newi.id for n in vg.walk(done))
        ok = "action" in cells and key in cells and not uses_new_i
        ctx.ob("C02.c", f"{name}._step:done<-action,{key}", ok, sl.where,
               f"done = {vg.show(done, 3)}" + ("" if ok else f": must depend on the action and on the pre-increment counter '{key}'"),
               construct=f"{sl.fi.qualname}:done:return")
        lv = nf.boolwalk(done, T.BOOL_CELLS)
        at_depot = [l for l in lv if l.conj and l.cmp() is not None and l.cmp()[1] == "==0" and "action" in vg.cells_of(l.node)]
        moved = [l for l in lv if l.conj and l.cmp() is not None and l.cmp()[1] == ">0" and l.cmp()[0].const_term() == 0 and
                 [a.args[1] for a in l.cmp()[0].side_atoms(True) if a.op == "cell0"] == [key] and not l.cmp()[0].side_atoms(False)]
        okf = len(lv) == 2 and len(at_depot) == 1 and len(moved) == 1
        ctx.ob("C02.c", f"{name}._step:done-form", okf, sl.where,
               f"done = (action == depot) & ({key} > 0)" if okf else f"done must be (action == depot) AND ({key} > 0); found literals {[str(l) for l in lv][:4]}",
               construct=f"{sl.fi.qualname}:done:form")
    elif name in T.DONE_QUOTA:
        key, quota = T.DONE_QUOTA[name]
        leaves = nf.boolwalk(done, T.BOOL_CELLS)
        ok, why = False, "no counter comparison found"
        for l in leaves:
            c = l.cmp()
            if c is None:
                continue
            p, op = c
            pos = {a.args[1] for a in p.side_atoms(True) if a.op == "cell0"}
            if key in pos and op == ">=0" and p.const_term() == 1:
                newi = sl.cell(key)
                if any(a.op != "cell0" and key in vg.cells_of(a) for a in p.side_atoms(True)):
                    why = "counter is not the pre-increment cell"
                    continue
                neg = set()
                for a in p.side_atoms(False):
                    neg |= vg.cells_of(a) | {"self." + x for x in vg.selfattrs_of(a)}
                if quota and not quota <= neg:
                    why = f"quota {sorted(quota)} not on the other side"
                    continue
                ok, why = True, f"{p.show(3)} {op}"
            elif key in pos:
                why = f"found {p.show(3)} {op}: finishing test must be  {key} - quota + 1 >= 0  on the pre-increment counter"
        ctx.ob("C02.c", f"{name}._step:done<-quota", ok, sl.where, why, construct=f"{sl.fi.qualname}:done:quota")
        inc = sl.cell(key)
        p = nf.poly(inc) - nf.poly(vg.mk("cell0", sl.td.name, key))
        ctx.ob("C02.c", f"{name}._step:{key}+1", p == nf.Poly.const(1), sl.where, f"{key}' - {key} = {p.show(2)}",
               construct=f"{sl.fi.qualname}:{key}:increment")


def done_form(ctx: Ctx, name, sl, done, key):
    """The completion test has the right comparison: 'nothing available' (count == 0 or <= 0),
    'everything visited' (sum == size) -- not a strictness/direction variant that is never or
    always true."""
    d = nf.strip(done, bool_ctx=True)
    neg = False
    while d.op in ("inv", "not"):
        d, neg = nf.strip(d.args[0], bool_ctx=True), not neg
    if d.op == "meth" and d.args[1] in ("all", "any"):
        kind = d.args[1]
        inner = nf.strip(d.args[0], True)
        c = nf.cmpnf(inner)
        if key == "demand_with_depot":
            ok = neg and kind == "any" and c is not None and c[1] == ">0" and c[0].const_term() == 0 and not c[0].side_atoms(False)
            why = "done = not any(remaining demand > 0)"
        elif key == "job_location":
            ok = (not neg) and kind == "all" and c is not None and c[1] == "==0"
            why = "done = all(job_location == num_stage)"
        else:
            ok = (not neg) and kind == "all" and c is None
            why = f"done = {key}'.all()"
        ctx.ob("C02.c", f"{name}._step:done-form", ok, sl.where, why if ok else f"unexpected completion test {vg.show(done, 3)}", construct=f"{sl.fi.qualname}:done:form")
        return
    c = nf.cmpnf(d, negate=neg)
    ok, why = False, f"unexpected completion test {vg.show(done, 3)}"
    if c is not None:
        p, op = c
        atoms_ = p.atoms()
        counts = [a for a in atoms_ if (a.op == "meth" and a.args[1] in ("sum", "count_nonzero")) or nf._fn(a) in ("torch.sum", "torch.count_nonzero")]
        sizes = [a for a in atoms_ if nf.dim_of(a) is not None]
        if len(counts) == 1 and not sizes and p.const_term() == 0:
            coef = [cf for cf, fs in p.monos() if fs and fs[0][0] is counts[0]][0]
            ok = (op == "==0") or (op == ">=0" and coef < 0)
            why = f"done iff count of open entries {'== 0' if op == '==0' else '<= 0'}: {p.show(2)} {op}"
        elif len(counts) == 1 and len(sizes) == 1:
            ok = op == "==0" or (op == ">=0" and [cf for cf, fs in p.monos() if fs and fs[0][0] is counts[0]][0] > 0)
            why = f"done iff visited count == number of nodes: {p.show(2)} {op}"
    ctx.ob("C02.c", f"{name}._step:done-form", ok, sl.where, why, construct=f"{sl.fi.qualname}:done:form")


def rule_d(ctx: Ctx, env: EnvA):
    sl = env.slot("_step")
    ctx.fn(sl.fi)
    frames = sl.it.call_frames
    checks = [f for f in frames if f.func is not None and f.func.name == "_check_step_complete"]
    transits = [f for f in frames if f.func is not None and f.func.name == "_transit_to_next_time"]
    if len(checks) < 2 or len(transits) < 2:
        raise AnalysisError(f"{env.name}._step: expected the step-complete loop (found {len(checks)} checks / {len(transits)} transits)")
    mask_frames = [f for f in frames if f.func is not None and f.func.name == "get_action_mask"]
    for i, cf in enumerate(checks):
        td_uid = sl.td.uid
        cells = cf.entry_cells.get(td_uid, {})
        am = cells.get("action_mask")
        inst = f"{env.name}._step:check#{i + 1}"
        if am is None:
            ctx.ob("C02.d", inst, False, sl.where, "no action_mask at the loop test", construct=f"{sl.fi.qualname}:loop-test:{i}:no-mask")
            continue
        ids = {n.id for n in vg.walk(am)}
        mf = [f for f in mask_frames if isinstance(f.ret, vg.S) and f.ret.id in ids]
        if not mf:
            ctx.ob("C02.d", inst, False, sl.where, "the mask read by the loop test is not the result of get_action_mask",
                   construct=f"{sl.fi.qualname}:loop-test:{i}:not-recomputed")
            continue
        exact = [f for f in mf if f.ret is am]
        f0 = exact[-1] if exact else mf[-1]
        stale = []
        seen = set()
        for uid, key, val, node in f0.reads:
            if uid != td_uid or key in seen or key == "action_mask":
                continue
            seen.add(key)
            if cells.get(key) is not val:
                stale.append(key)
        ctx.ob("C02.d", inst, not stale, sl.where,
               (f"loop test reads a mask computed before the time transition updated {stale}" if stale else f"mask fresh w.r.t. {sorted(seen)}"),
               construct=f"{sl.fi.qualname}:loop-test:{i}:stale:{','.join(stale)}")
    # the mask finally stored is fresh as well
    am = sl.cell("action_mask")
    ids = {n.id for n in vg.walk(am)}
    ok = any(isinstance(f.ret, vg.S) and f.ret.id in ids for f in mask_frames)
    ctx.ob("C02.d", f"{env.name}._step:final-mask", ok, sl.where, "final action_mask comes from get_action_mask", construct=f"{sl.fi.qualname}:final-mask")


def rule_e(ctx: Ctx):
    """decoding loops: `while not td["done"].all()`, one env.step per iteration, a counter
    incremented exactly once per iteration and an `if counter > max_steps: break` cap"""
    for rel, fn in (("rl4co/models/common/constructive/base.py", "ConstructivePolicy.forward"), ("rl4co/utils/decoding.py", "rollout")):
        fi = ctx.repo.get_function(rel, fn)
        ctx.fn(fi)
        from ..model import canon_counters
        loops = [n for n in ast.walk(canon_counters(fi.node)) if isinstance(n, ast.While)]
        ok, why = False, "no `while not td['done'].all()` loop found"
        for w in loops:
            t = w.test
            if not (isinstance(t, ast.UnaryOp) and isinstance(t.op, ast.Not) and isinstance(t.operand, ast.Call)
                    and isinstance(t.operand.func, ast.Attribute) and t.operand.func.attr == "all" and "done" in ast.unparse(t.operand.func.value)):
                continue
            steps = [n for b in w.body for n in ast.walk(b) if isinstance(n, ast.Call) and isinstance(n.func, ast.Attribute) and n.func.attr == "step"
                     and isinstance(n.func.value, ast.Name) and n.func.value.id == "env"]
            incs = [b for b in w.body if isinstance(b, ast.AugAssign) and isinstance(b.op, ast.Add) and isinstance(b.target, ast.Name)
                    and isinstance(b.value, ast.Constant) and b.value.value == 1]
            caps = []
            for b in w.body:
                if isinstance(b, ast.If) and isinstance(b.test, ast.Compare) and len(b.test.ops) == 1 and isinstance(b.test.ops[0], (ast.Gt, ast.GtE, ast.Lt, ast.LtE)):
                    l, r = b.test.left, b.test.comparators[0]
                    if isinstance(b.test.ops[0], (ast.Lt, ast.LtE)):
                        l, r = r, l          # `max_steps < counter`
                    # the bound is a parameter of the function (the caller's step limit), the counter the incremented local
                    if isinstance(l, ast.Name) and isinstance(r, ast.Name) and r.id in fi.params() and any(isinstance(x, ast.Break) for x in ast.walk(b)):
                        caps.append(l.id)
            ok = len(steps) == 1 and len(incs) == 1 and caps == [incs[0].target.id]
            why = f"env.step calls={len(steps)} counter increments={[ast.unparse(i) for i in incs]} caps on={caps}"
        ctx.ob("C02.e", f"{fn}:loop", ok, fi.loc, why, construct=f"{fn}:decoding-loop")


def rule_f(ctx: Ctx):
    """C02.f progress: a constraint boundary tighter than the problem definition can mask every
    remaining customer of a feasible instance (e.g. demand == capacity at a fresh vehicle) so
    that the episode never finishes; same comparison table as C05.a."""
    from .C01 import check_literals
    for cname, (path, family) in T.ENVS.items():
        env = EnvA(ctx.repo, path, cname)
        sl, root = mask_root(env, family)
        check_literals(ctx, "C02", env, sl, root, T.MASK[cname], "mask", "tighter", ids=("C02.f", "C02.f"))


def rule_g(ctx: Ctx, env: EnvA):
    """C02.g every wait makes progress: the no-op (wait) column of an unfinished instance is closed while no job is in
    process.  A wait moves the clock to the next release; with nothing in process there is no release, so an open wait
    column there lets a mask-confined policy wait for ever (the step bound `one step per operation plus one per wait`
    counts one wait per released operation)."""
    sl, root = mask_root(env, "recompute")
    ctx.fn(sl.fi)
    r = nf.strip(root)
    if nf._fn(r) != "torch.cat":
        raise AnalysisError(f"{env.name}.get_action_mask: mask is not cat((no_op_mask, job columns))")
    items = nf._seq_items(r.args[1])
    if not items:
        raise AnalysisError(f"{env.name}.get_action_mask: empty cat")

    def assume(n):
        s = nf.strip(n, True)
        if s.op == "cell0" and s.args[1] == "done":
            return False
        if s.op == "meth" and s.args[1] == "any" and nf.strip(s.args[0]).op == "cell0" and nf.strip(s.args[0]).args[1] == "job_in_process":
            return False
        return None

    v = nf.kleene(items[0], assume)
    ctx.ob("C02.g", f"{env.name}:wait-needs-a-job-in-process", v is False, sl.where,
           f"no-op column {vg.show(items[0], 5)} evaluates to {v} under done=False, job_in_process.any()=False (must be False in every configuration)",
           construct=f"{sl.fi.qualname}:wait-column")


def rule_h(ctx: Ctx, env: EnvA):
    """C02.h the automatic time advance after a step runs exactly for unfinished rows whose freshly computed mask has no
    open column: (no action, unfinished) -> advance (else an all-masked row is handed to the policy); (some action) ->
    do not advance (a finished row always has its wait column open, so advancing it would never end the loop)."""
    sl = env.slot("_step")
    calls = [e for e in sl.it.events if e.kind == "call-enter" and e.data.name.endswith("._check_step_complete")]
    if not calls:
        raise AnalysisError(f"{env.name}._step: _check_step_complete not called")
    for i, e in enumerate(calls):
        fr = e.data
        dn = fr.locals.get("dones")
        if not isinstance(fr.ret, vg.S) or not isinstance(dn, vg.S):
            raise AnalysisError(f"{env.name}._check_step_complete: unexpected shape")
        dn_ids = {dn.id, nf.strip(dn, True).id}
        # td['action_mask'] read after td.set('action_mask', self.get_action_mask(td)) is the value returned by the mask function
        mask_ids = {x.data.ret.id for x in sl.it.events if x.kind == "call-exit" and x.data.name.endswith(".get_action_mask") and isinstance(x.data.ret, vg.S)}

        def is_mask(x):
            return "action_mask" in vg.cells_of(x) or any(y.id in mask_ids for y in vg.walk(x))

        def table(m, d):
            def assume(n):
                if n.id in dn_ids:
                    return d
                if nf._fn(n) == "einops.reduce" and any(vg.is_const(x, "any") for x in n.args[1:]) and is_mask(n.args[1]):
                    return m
                if n.op == "meth" and n.args[1] == "any" and is_mask(n.args[0]):
                    return m
                return None
            return nf.kleene(fr.ret, assume)

        want = {(False, False): True, (True, False): False, (True, True): False}
        got = {k: table(*k) for k in want}
        bad = [f"open={k[0]},done={k[1]} -> {got[k]}" for k in want if got[k] is not want[k]]
        ctx.ob("C02.h", f"{env.name}._step:auto-advance:{i}", not bad, sl.where,
               "advance iff (no open column and unfinished)" + (f"; violated for {bad}" if bad else ""),
               construct=f"{env.name}._check_step_complete:{i}")


def run(ctx: Ctx):
    rule_f(ctx)
    for cname, path in T.ALL_ENVS.items():
        env = EnvA(ctx.repo, path, cname)
        sl = env.slot("_step")
        probs = sl.problems()
        if probs:
            raise AnalysisError(f"{cname}._step: unhandled constructs {probs[:3]}")
        if cname in T.MONOTONE:
            monotone(ctx, env, "C02.a")
        if cname in T.PADDING:
            rule_b(ctx, env)
        rule_c(ctx, env)
        if cname in ("FJSPEnv", "JSSPEnv"):
            rule_d(ctx, env)
            rule_g(ctx, env)
            rule_h(ctx, env)
    rule_e(ctx)
    ffsp_wait_column(ctx)
    in_process_flag_is_exact(ctx)
    rows_decided_per_instance(ctx)
    finished_selection_keeps_an_action(ctx)
    fjsp_file_operations_keep_their_machines(ctx)
    generated_instances_can_be_completed(ctx)


def in_process_flag_is_exact(ctx: Ctx):
    """C02.n the wait column of FJSP / JSSP (mask_no_ops=False) is `job_in_process.any() & ~done`: waiting is offered iff some
    operation is running, and `_transit_to_next_time` can then always find a finite next event.  That needs the flag to be EXACT:
    it is cleared for every job whose running operation has ended -- the clearing condition is `job_in_process & (finish_times[next_op]
    <= time)` and nothing else.  Any further conjunct (e.g. `& ~job_finished`) leaves a completed job flagged for ever: waiting stays
    offered with all machines idle and the step that takes it has no next event."""
    from .C07 import as_store, FJ, TS
    env = EnvA(ctx.repo, FJ, "FJSPEnv")
    sl = env.slot("_transit_to_next_time")
    ctx.fn(sl.fi)
    st = as_store(sl.cell("job_in_process"))
    ok, why = False, "job_in_process is not cleared by a masked store of False"
    if st is not None and vg.is_const(st.args[2]) and not bool(st.args[2].args[0]):
        leaves = nf.boolwalk(st.args[1], TS.BOOL_CELLS)
        extra = []
        n_rel = n_flag = 0
        for l in leaves:
            c = l.cmp()
            if l.node.op == "cell0" and l.node.args[1] == "job_in_process" and l.sign > 0:
                n_flag += 1
            elif c is not None and c[1] in (">=0", ">0") and "time" in nf.sided_cells(c[0])[0] and "finish_times" in nf.sided_cells(c[0])[1] and l.sign > 0:
                # time - finish_times[next_op] >= 0: the operation HAS ended (the mirrored test has the same operator after normalisation)
                n_rel += 1
            else:
                extra.append(vg.show(l.node, 3)[:60])
        ok = n_flag >= 1 and n_rel >= 1 and not extra and all(l.conj for l in leaves)
        why = f"cleared under job_in_process ({n_flag}) & finish_times[next_op] <= time ({n_rel})" + ("" if not extra else f" AND further conditions {extra}: a job that meets none of them keeps its flag after its operation has ended")
    ctx.ob("C02.n", "FJSPEnv._transit:in-process-flag-cleared-for-every-ended-operation", ok, sl.where, why,
           construct="FJSPEnv._transit_to_next_time:job_in_process:clear-condition")


def generated_instances_can_be_completed(ctx: Ctx):
    """C02.m an episode can only finish if every customer is servable from the depot at all: the generators assert that before
    they return (C18.p, shared: feasibility assertions dominate every return; MTVRP: the ROUND trip 2 d < L -- the routes a
    limit applies to are closed by the later sub-sampling -- and the horizon H >= 1 with H leaving time to return).  With the
    one-way test a customer beyond L / 2 is never offered, only the depot is, and the episode idles there for ever."""
    from . import C18
    from ..core import Ctx as _Ctx
    import contextlib, io
    sub = _Ctx("C18", ctx.repo, "quick", 0)
    with contextlib.redirect_stdout(io.StringIO()):
        C18.feasibility_guards(sub)
        C18.mtvrp_horizon_guard(sub)
    got = [o for o in sub.obligations if o.rule == "C18.p"]
    if len(got) < 3:
        raise AnalysisError(f"C18.p obligations lost: {len(got)} < 3")
    for o in got:
        o.rule = "C02.m"
        ctx.obligations.append(o)


def fjsp_file_operations_keep_their_machines(ctx: Ctx):
    """C02.l FJSP instances read from FJSPLIB files: every operation keeps ALL its (machine, duration) alternatives (reader half
    of C19.c).  An operation whose only eligible machine is dropped by the reader can never be scheduled: its job blocks, the
    instance ends in an all-masked row and the wait transition finds no machine that will ever become free."""
    from .C19 import fjsp_reader_layout, FP
    pj = ctx.repo.get_function(FP, "parse_job_line")
    ctx.fn(pj)
    order_r, adv, nops_ok, why_r = fjsp_reader_layout(ctx, pj)
    ok = bool(order_r and adv and nops_ok)
    ctx.ob("C02.l", "fjsp.parser.parse_job_line:all-alternatives-read", ok, pj.loc, f"{why_r}; one iteration per operation: {nops_ok}",
           construct="fjsp.parser:token-order")


def finished_selection_keeps_an_action(ctx: Ctx):
    """C02.k selection environments (FLP, MCP, DPP, MDPP): an instance that reached its quota keeps being stepped while its
    batch-mates select on, so its mask row must stay open somewhere.  Kleene evaluation of the mask written by `_step` under
    the assumption "this instance is done" (both the incoming flag and the one computed in this step): a mask that evaluates
    to all-False has been conjoined with the negated done flag -- the finished row is all-masked and the decoder's softmax
    sees a row of -inf."""
    for cname in ("FLPEnv", "MCPEnv", "DPPEnv", "MDPPEnv"):
        env = EnvA(ctx.repo, T.ALL_ENVS[cname], cname)
        sl = env.slot("_step")
        ctx.fn(sl.fi)
        am = sl.cell("action_mask")
        nd = sl.cell("done")
        if am is None or nd is None:
            raise AnalysisError(f"{cname}._step: action_mask / done not written")
        nd_id = nf.strip(nd, True).id

        def a_(n_):
            x_ = nf.strip(n_, True)
            if x_.id == nd_id:
                return True
            while x_.op == "sub" or (x_.op == "meth" and x_.args[1] in ("reshape", "view", "squeeze", "unsqueeze", "clone", "flatten", "expand_as", "bool")):
                x_ = nf.strip(x_.args[0], True)
                if x_.id == nd_id:
                    return True
            if x_.op == "cell0" and x_.args[1] == "done":
                return True
            return None
        v = nf.kleene(am, a_)
        ok = v is not False
        ctx.ob("C02.k", f"{cname}._step:finished-row-keeps-an-action", ok, sl.where,
               f"action_mask' under done = True evaluates to {'unknown (depends on the selection, not on done)' if v is None else v}" +
               ("" if ok else ": every action of a finished instance is closed while its batch-mates are still selecting"),
               construct=f"{sl.fi.qualname}:mask:closed-when-done")


def rows_decided_per_instance(ctx: Ctx):
    """C02.j the mask and the done flag of one instance are computed from that instance's own row.  Every other C02 rule reads
    the step function row by row (truth tables with one row per instance, per-row counters); this rule discharges that premise
    with the batch-axis engine of C04, restricted to the sinks C02 is about: the `action_mask` and `done` cells written by
    `_step` and the value returned by `get_action_mask`.  A fleet size read once for the whole batch (`batch_to_scalar`), a
    reduction over the batch axis or a [batch] x [batch, 1] broadcast in those values lets an instance be offered the depot after
    its last vehicle left, or closes its last action because a batch-mate is finished."""
    from .C04 import batch_rows
    batch_rows(ctx, "C02.j", meths=("_step", "get_action_mask"),
               sink_ok=lambda cname, meth, sink: sink == "return" or sink in ("cell:action_mask", "cell:done"))


def ffsp_wait_column(ctx: Ctx):
    """C02.i FFSP: a wait only makes progress when there is something to wait for.  The env states the rule itself: waiting is
    allowed iff a job is still in a previous stage, OR a job of this stage is still being processed upstream (in the stage AND
    its wait counter positive), OR the instance is done.  Truth table over (previous, in stage, waiting, done) with uniform
    rows; an entry that is open where the rule closes it lets a policy wait with nothing pending (steps beyond the bound)."""
    import itertools
    env = EnvA(ctx.repo, "rl4co/envs/scheduling/ffsp/env.py", "FFSPEnv")
    sl = env.slot("_update_step_state")
    if sl is None or sl.cell("action_mask") is None:
        raise AnalysisError("FFSPEnv._update_step_state: action_mask not written")
    ctx.fn(sl.fi)
    root = sl.cell("action_mask")
    cats = [n for n in vg.walk(root) if nf._fn(n) == "torch.cat" and len(nf._seq_items(n.args[1]) or []) == 2]
    if len(cats) != 1:
        raise AnalysisError(f"FFSPEnv._update_step_state: expected cat((job columns, wait column)), found {len(cats)}")
    wait = nf._seq_items(cats[0].args[1])[-1]

    def mk(f):
        def a(n):
            y = nf.strip(n, True)
            if y.op == "cell0" and y.args[1] == "done":
                return f["d"]
            if y.op in ("phi", "ifexp"):
                vals = {nf.kleene(x, a) for x in y.args[1:]}
                return vals.pop() if len(vals) == 1 else None
            if y.op == "meth" and y.args[1] in ("any", "all", "squeeze", "unsqueeze") or (y.op == "sub" and nf.strip(y.args[0], True).op != "cell0"):
                return nf.kleene(y.args[0], a)          # rows are uniform under the assignment
            c = nf.cmpnf(y)
            if c is None:
                return None
            P, op = c
            cells = set()
            for at in P.atoms():
                cells |= vg.cells_of(at)
            pos, neg = nf.sided_cells(P)
            if "job_wait_step" in cells and "job_location" not in cells:
                if op == ">0" and "job_wait_step" in pos and P.const_term() == 0:
                    return f["w"]
                if op == "==0" and P.const_term() == 0:
                    return not f["w"]
                return None
            if "job_location" in cells and "job_wait_step" not in cells:
                if op == "==0":
                    return f["s"]
                if op == ">0" and "job_location" in neg:
                    return f["p"]
                if op == ">=0" and "job_location" in pos:
                    return not f["p"]
            return None
        return a
    opened, closed, undec = [], [], 0
    for bits in itertools.product([False, True], repeat=4):
        f = dict(zip("pswd", bits))
        if f["p"] and f["s"]:
            continue                                    # a job is in a previous stage or in this one, not both
        v = nf.kleene(wait, mk(f))
        ref = f["p"] or (f["s"] and f["w"]) or f["d"]
        tag = "".join(k if f[k] else "-" for k in "pswd")
        if v is None:
            undec += 1
        elif v and not ref:
            opened.append(tag)
        elif ref and not v:
            closed.append(tag)
    ok = not opened and not closed and undec == 0
    ctx.ob("C02.i", "FFSPEnv:wait-column-follows-its-rule", ok, sl.where,
           f"wait allowed iff previous-stage job | (in stage & still processed) | done, 12 assignments: opened against the rule {opened}, closed against it {closed}, undetermined {undec}",
           construct="FFSPEnv._update_step_state:wait-column:truth-table")


def run_thorough(ctx: Ctx):
    from ..selftest.corpus import for_prop
    from ..selftest.runner import run_corpus
    run_corpus(ctx, for_prop("C02"))
