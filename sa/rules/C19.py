"""C19 -- persistence round trips: *writer/reader agreement clauses only*.

C19.a  npz: save_tensordict_to_npz writes every (key, value) of the TensorDict and
       load_npz_to_tensordict rebuilds a TensorDict from every stored key (no filtering /
       renaming), batch size from the leading axis
C19.b  generated dataset files: keys written by generate_<problem>_data cover every key that the
       matching env's load_data transformation and _reset read
C19.c  FJSP text format: the writer's +1 on machine ids pairs with the reader's -1; token order
       (count, (machine, duration)*) is identical on both sides; the reader advances by 1 + 2*count
       and the FJSP file generator reads the same four keys the random generator produces
C19.d  pickle hooks pair: RL4COEnvBase rng state get_state <-> set_state; RolloutBaseline drops and
       re-creates `dataset`
C19.e  REINFORCE.load_from_checkpoint strips exactly the prefix it filtered on, once
"""
from __future__ import annotations

import ast

from .. import nf, vg
from ..core import Ctx
from ..envs import EnvA
from ..model import AnalysisError
from ..tables import routing as T

FLOOR = 33
EXPLANATION = (
    "Static writer/reader agreement checks: npz save/load key sets, keys emitted by generate_<problem>_data vs keys read by the "
    "matching env's load_data and _reset (value graph of _reset), FJSP text writer vs parser (machine-id shift, token order, "
    "cursor advance), __getstate__/__setstate__ pairs, checkpoint prefix filter vs strip. These are necessary conditions for "
    "any round trip; value/dtype equality of restored objects and equality of greedy solutions after restore are not decided."
)
RULE = "one obligation per writer/reader pair clause"
DU = "rl4co/data/utils.py"
GD = "rl4co/data/generate_data.py"
FP = "rl4co/envs/scheduling/fjsp/parser.py"

# generate_<name>_data -> env class that consumes the file
WRITER_ENV = {"tsp": "TSPEnv", "vrp": "CVRPEnv", "pdp": "PDPEnv", "op": "OPEnv", "pctsp": "PCTSPEnv", "atsp": "ATSPEnv", "mdpp": "MDPPEnv"}


def dict_keys_of_returns(fn_node):
    from ..model import returned_exprs
    keys = None
    for v in returned_exprs(fn_node):
        if isinstance(v, ast.Dict):
            ks = {k.value for k in v.keys if isinstance(k, ast.Constant)}
            keys = ks if keys is None else (keys & ks)
    return keys


def fjsp_reader_layout(ctx: Ctx, pj):
    """Reader half of C19.c (also C02.l): parse_job_line reads <n_ops> (<n_eligible> (<machine + 1> <duration>)*)* -- the count at
    the cursor, machines at cursor+1::2 and durations at cursor+2::2 over 2*count tokens, zipped as (machine, duration), cursor
    advanced by 1 + 2*count, one iteration per operation."""
    import ast
    # token layout, on the value graph: <n_ops> (<n_eligible> (<machine+1> <duration>)*)*
    itp = vg.Interp(ctx.repo, None, inline_policy=lambda f, a: False)
    frp = itp.run_function(pj)
    Lp = frp.locals
    line_p = vg.mk("param", pj.params()[0])

    def tok(ix):
        return vg.mk("sub", line_p, ix)
    # the cursor is the loop-carried local that starts at 1 (token 0 is the number of operations)
    idx_l = next((v for v in Lp.values() if isinstance(v, vg.S) and v.op == "loop" and vg.is_const(v.args[0], 1)), None)
    order_r = adv = False
    why_r = "cursor / slices not recognised"
    if isinstance(idx_l, vg.S) and idx_l.op == "loop" and vg.is_const(idx_l.args[0], 1):
        body = idx_l.args[1]
        lv = [n for n in vg.walk(body) if n.op == "loopvar"]
        if lv:
            cur = lv[0]
            cnt = None
            for n in vg.walk(body):
                if nf._fn(n) == "int" and len(n.args) == 2 and n.args[1].op == "sub" and n.args[1].args[0] is line_p and n.args[1].args[1] is cur:
                    cnt = n
            if cnt is not None:
                P2 = nf.Poly.const(2) * nf.Poly.atom(nf.norm(cnt))
                adv = nf.poly(body) == nf.poly(cur) + nf.Poly.const(1) + P2

                def sl(v):
                    v = v.args[1] if isinstance(v, vg.S) and v.op == "loop" else v
                    if isinstance(v, vg.S) and v.op == "sub" and v.args[0] is line_p and v.args[1].op == "slice":
                        lo, hi, st = v.args[1].args
                        return nf.poly(lo) - nf.poly(cur), nf.poly(hi) - nf.poly(cur), st
                    return None
                # machines / durations are the two operands of the zip the (machine, duration) pairs are built from
                mv_ = dv_ = None
                for e in itp.events:
                    if e.kind == "methcall" and e.data[1] == "append" and e.data[2] and e.data[2][0].op == "comp":
                        ov_ = [x for x in e.data[2][0].args if isinstance(x, vg.S) and x.op == "over"]
                        if len(ov_) == 1 and nf._fn(ov_[0].args[0]) == "zip" and len(ov_[0].args[0].args) == 3:
                            mv_, dv_ = ov_[0].args[0].args[1], ov_[0].args[0].args[2]
                sm, sd = sl(mv_), sl(dv_)
                if sm and sd:
                    # a stride-2 slice over an even token count reads ceil(extent / 2) tokens: the stop may sit on the last token read or one past it
                    ext_ok = all((x[1] - x[0]) == P2 or (x[1] - x[0]) == P2 - nf.Poly.const(1) for x in (sm, sd))
                    order_r = sm[0] == nf.Poly.const(1) and sd[0] == nf.Poly.const(2) and ext_ok and \
                        vg.is_const(sm[2], 2) and vg.is_const(sd[2], 2)
                # pairs are (machine, duration) over zip(machines, durations)
                apps = [e for e in itp.events if e.kind == "methcall" and e.data[1] == "append" and e.data[2]]
                pair_ok = False
                for e in apps:
                    c = e.data[2][0]
                    if c.op == "comp":
                        ov = [x for x in c.args if isinstance(x, vg.S) and x.op == "over"]
                        if len(ov) == 1 and nf._fn(ov[0].args[0]) == "zip":
                            z = ov[0].args[0]
                            # the comprehension yields (first, second) of the zip in that order
                            vals_ = [x for x in c.args[1:] if isinstance(x, vg.S) and x.op != "over"]
                            tup_ = vals_[0] if vals_ else None
                            pair_ok = tup_ is not None and tup_.op == "tuple" and len(tup_.args) == 2 and all(t_.op == "sub" and t_.args[0].op == "iter" for t_ in tup_.args) and \
                                vg.is_const(tup_.args[0].args[1], 0) and vg.is_const(tup_.args[1].args[1], 1) and sm is not None and sd is not None
                order_r = order_r and pair_ok
                why_r = f"count at idx, machines at idx+1::2, durations at idx+2::2 over 2*count tokens, zipped (machine, duration): {order_r}; cursor += 1 + 2*count: {adv}"
    loops_p = [n for n in ast.walk(pj.node) if isinstance(n, ast.For)]
    n_it = [v for v in Lp.values() if isinstance(v, vg.S) and v.op == "iter" and nf._fn(v.args[0]) == "range"]
    nops_ok = len(loops_p) == 1 and len(n_it) == 1 and len(n_it[0].args[0].args) == 2 and n_it[0].args[0].args[1] is tok(vg.const(0))
    return order_r, adv, nops_ok, why_r


def no_state_in_default_arguments(ctx: Ctx):
    """C19.k a loader that is called once per directory returns what is in THAT directory: no function of the code that reads instances (rl4co/data, the generator / parser / env modules
    under rl4co/envs) has a mutable default argument (list / dict / set literal) that its body mutates (`files += [...]`, `.append`,
    `.extend`, `.update`, item assignment).  The default object is created once per process, so the second call still holds
    the first call's files: the validation set silently contains the training directory as well."""
    n = 0
    for name, mi in sorted(ctx.repo.modules.items()):
        # the code that reads instances from disk: data utilities, generators (file generators included), parsers, env.load_data
        if not (name.startswith("rl4co.data") or (name.startswith("rl4co.envs") and (name.endswith(".generator") or name.endswith(".parser") or name.endswith(".env")))):
            continue
        for fn_ in [f for c in mi.classes.values() for f in c.methods.values()] + list(mi.functions.values()):
            a = fn_.node.args
            params = [x.arg for x in a.posonlyargs + a.args]
            muts = {params[len(params) - len(a.defaults) + i] for i, d in enumerate(a.defaults) if isinstance(d, (ast.List, ast.Dict, ast.Set))}
            muts |= {k.arg for k, d in zip(a.kwonlyargs, a.kw_defaults) if isinstance(d, (ast.List, ast.Dict, ast.Set))}
            if not muts:
                continue
            n += 1
            bad = []
            for st in ast.walk(fn_.node):
                if isinstance(st, ast.AugAssign) and isinstance(st.target, ast.Name) and st.target.id in muts:
                    bad.append(f"{st.target.id} {type(st.op).__name__}= ... (line {st.lineno})")
                if isinstance(st, ast.Assign) and any(isinstance(t, ast.Subscript) and isinstance(t.value, ast.Name) and t.value.id in muts for t in st.targets):
                    bad.append(f"item assignment (line {st.lineno})")
                if isinstance(st, ast.Call) and isinstance(st.func, ast.Attribute) and isinstance(st.func.value, ast.Name) and st.func.value.id in muts \
                        and st.func.attr in ("append", "extend", "update", "add", "insert", "setdefault", "pop", "clear"):
                    bad.append(f"{st.func.value.id}.{st.func.attr}(...) (line {st.lineno})")
            ctx.ob("C19.k", f"{fn_.qualname}:default-arguments-not-mutated", not bad, fn_.loc,
                   f"mutable default(s) {sorted(muts)} are only read" if not bad else f"mutable default mutated: {bad[0]} -- the object survives the call and accumulates across calls in one process",
                   construct=f"{fn_.qualname}:mutable-default-mutated")
    ctx.extra["functions_with_mutable_defaults"] = n


def restored_keys_keep_their_namespace(ctx: Ctx):
    """C19.j a checkpoint's state-dict keys are hierarchical names (`policy.encoder...`, `baseline.baseline.policy.encoder...`).
    Code that rewrites them before `load_state_dict` (dict comprehensions over `state_dict.items()` in rl4co/models) may REMOVE a
    prefix (`k.replace(p, "", 1)`, `k.removeprefix(p)`, `k[len(p):]`) but not take the TAIL after a separator
    (`k.split(p, 1)[-1]`, `k.rsplit(...)`, `k.partition(p)[2]`): tail-taking drops what stands in front of the prefix, so
    `baseline.baseline.policy.x` and `policy.x` land on one key and the later entry -- the frozen baseline copy -- overwrites
    the trained weights that were saved."""
    n = 0
    for name, mi in sorted(ctx.repo.modules.items()):
        if not name.startswith("rl4co.models"):
            continue
        for dc in ast.walk(mi.tree):
            if not isinstance(dc, ast.DictComp) or not dc.generators:
                continue
            g = dc.generators[0]
            if not (isinstance(g.iter, ast.Call) and isinstance(g.iter.func, ast.Attribute) and g.iter.func.attr == "items" and "state_dict" in ast.unparse(g.iter.func.value)):
                continue
            kname = g.target.elts[0].id if isinstance(g.target, ast.Tuple) and g.target.elts and isinstance(g.target.elts[0], ast.Name) else None
            if kname is None or (isinstance(dc.key, ast.Name) and dc.key.id == kname):
                continue            # keys copied unchanged (a filter)
            n += 1
            tails = [ast.unparse(x)[:50] for x in ast.walk(dc.key) if isinstance(x, ast.Subscript) and isinstance(x.value, ast.Call) and isinstance(x.value.func, ast.Attribute)
                     and x.value.func.attr in ("split", "rsplit", "partition", "rpartition")]
            ctx.ob("C19.j", f"{mi.relpath}:{dc.lineno}:restored-keys-keep-their-namespace", not tails, f"{mi.relpath}:{dc.lineno}",
                   f"key rewrite `{ast.unparse(dc.key)[:60]}` removes a prefix and keeps the rest of the name" if not tails else
                   f"key rewrite `{tails[0]}` keeps only the tail after the separator: names that differ in front of it collapse onto one key and overwrite each other",
                   construct=f"{mi.relpath}:state-dict-key-rewrite:tail-taking")
    if n < 2:
        raise AnalysisError(f"state-dict key rewrites lost: {n} < 2 (PolyNet base-model restore, REINFORCE baseline restore)")


def run(ctx: Ctx):
    no_memoised_readers(ctx)
    dataset_files_in_order(ctx)
    directory_listings_sorted(ctx)
    round_trip_conventions(ctx)
    hparams_keep_policy(ctx)
    restored_keys_keep_their_namespace(ctx)
    no_state_in_default_arguments(ctx)
    # ---------------- a: npz
    sv = ctx.repo.get_function(DU, "save_tensordict_to_npz")
    ld = ctx.repo.get_function(DU, "load_npz_to_tensordict")
    ctx.fn(sv)
    ctx.fn(ld)
    dcs = [n for n in ast.walk(sv.node) if isinstance(n, ast.DictComp)]
    ok = len(dcs) == 1 and not dcs[0].generators[0].ifs and ast.unparse(dcs[0].generators[0].iter).endswith(".items()") and \
        isinstance(dcs[0].key, ast.Name) and isinstance(dcs[0].generators[0].target, ast.Tuple) and dcs[0].key.id == dcs[0].generators[0].target.elts[0].id
    saves = [n for n in ast.walk(sv.node) if isinstance(n, ast.Call) and ast.unparse(n.func) in ("np.savez", "np.savez_compressed")]
    ok = ok and len(saves) == 2 and all(any(k.arg is None for k in c.keywords) for c in saves)
    ctx.ob("C19.a", "save_tensordict_to_npz:all-keys", ok, sv.loc, "every (key, value) of tensordict.items() is written under its own key", construct="save_tensordict_to_npz:keys")
    itl = vg.Interp(ctx.repo, None, inline_policy=lambda f, a: False)
    frl = itl.run_function(ld)
    ok, why = False, "does not return a TensorDict built from the loaded archive"
    if isinstance(frl.ret, vg.TD):
        tdl = frl.ret
        srcs = list(tdl.opaque_updates)
        full = len(srcs) == 1 and not tdl.cells and nf._fn(srcs[0]) == "dict" and nf._fn(srcs[0].args[1]) in ("numpy.load", "np.load") and \
            srcs[0].args[1].args[1].op == "param"
        bs = getattr(tdl, "meta", {}).get("batch_size")
        lead = False
        if full and isinstance(bs, vg.S) and nf.dim_of(bs) is not None and nf.dim_of(bs)[1] == 0:
            arr = nf.dim_of(bs)[0]
            lead = arr.op == "sub" and arr.args[0] is srcs[0]
        ok = full and lead
        why = f"TensorDict(dict(np.load(file))) with every key of the archive: {full}; batch size = leading axis of one of its arrays: {lead}"
    ctx.ob("C19.a", "load_npz_to_tensordict:all-keys", ok, ld.loc, why, construct="load_npz_to_tensordict:keys")
    nodeco = not ld.node.decorator_list
    ctx.ob("C19.a", "load_npz_to_tensordict:fresh-object", nodeco, ld.loc,
           "every call builds a new TensorDict (no memoisation): callers such as CVRPEnv.load_data modify the result in place" if nodeco else
           f"the loader is decorated with {[ast.unparse(d) for d in ld.node.decorator_list]}: repeated loads share one mutable TensorDict that load_data transformations modify in place",
           construct="load_npz_to_tensordict:decorated")
    # ---------------- b: generated datasets
    gm = ctx.repo.module_by_path(GD)
    n_pairs = 0
    for wname, cname in WRITER_ENV.items():
        fi = gm.functions.get(f"generate_{wname}_data")
        if fi is None:
            raise AnalysisError(f"generate_{wname}_data not found")
        ctx.fn(fi)
        written = dict_keys_of_returns(fi.node)
        if not written:
            raise AnalysisError(f"generate_{wname}_data: returned dict keys not found")
        env = EnvA(ctx.repo, T.ALL_ENVS[cname], cname)
        rs = env.slot("_reset")
        ctx.fn(rs.fi)
        need = set()
        intd = [t for t in rs.it.tds if t.name == "td" and t.parent is None and not t.closed and getattr(t, "cloned_from", None) is None]
        if intd:
            uids = {intd[0].uid} | {t.uid for t in rs.it.tds if getattr(t, "cloned_from", None) is intd[0]}
            for uid, key, val, node in rs.fr.reads:
                if uid in uids and isinstance(val, vg.S) and val.op == "cell0" and key != "*":
                    need.add(key)
        # keys produced / consumed by load_data
        ldf = env.resolve("load_data")
        produced_by_loader, read_by_loader = set(), set()
        if ldf is not None and ldf.cls is not None and ldf.cls.name != "RL4COEnvBase":
            ctx.fn(ldf)
            for n in ast.walk(ldf.node):
                if isinstance(n, ast.Call) and isinstance(n.func, ast.Attribute) and n.func.attr == "set" and n.args and isinstance(n.args[0], ast.Constant):
                    produced_by_loader.add(n.args[0].value)
                if isinstance(n, ast.Subscript) and isinstance(n.slice, ast.Constant) and isinstance(n.slice.value, str) and isinstance(n.ctx, ast.Load):
                    read_by_loader.add(n.slice.value)
        miss = (need - produced_by_loader - written) | (read_by_loader - written)
        n_pairs += 1
        ctx.ob("C19.b", f"generate_{wname}_data->{cname}", not miss, fi.loc,
               f"file keys {sorted(written)}; {cname}.load_data reads {sorted(read_by_loader)}; _reset reads {sorted(need)}" + (f"; MISSING in file: {sorted(miss)}" if miss else ""),
               construct=f"generate_{wname}_data:keys:{','.join(sorted(miss))}")
        ctx.sample({"writer": f"generate_{wname}_data", "env": cname, "file_keys": sorted(written), "needed": sorted(need | read_by_loader)})
    # CVRP capacity normalisation pairs with the un-normalised demand the writer emits
    cv = EnvA(ctx.repo, T.ALL_ENVS["CVRPEnv"], "CVRPEnv").resolve("load_data")
    ctx.fn(cv)
    itc = vg.Interp(ctx.repo, cv.cls, inline_policy=lambda f, a: False)
    frc = itc.run_function(cv)
    sets = [e for e in itc.events if e.kind == "methcall" and e.data[1] == "set" and e.data[2] and vg.is_const(e.data[2][0], "demand") and not e.conds]
    ok = False
    if len(sets) == 1 and len(sets[0].data[2]) == 2:
        base, val = sets[0].data[0], sets[0].data[2][1]
        pv = nf.poly(val)
        mon = pv.monos()
        if len(mon) == 1 and mon[0][0] == 1 and len(mon[0][1]) == 2:
            ats = [a for a, _ in mon[0][1]]
            cb = nf.norm(base)
            dem = [a for a in ats if a.op == "sub" and vg.is_const(a.args[1], "demand") and nf.norm(a.args[0]) is cb]
            rec = [a for a in ats if a.op == "recip"]
            if len(dem) == 1 and len(rec) == 1:
                den = nf.strip(rec[0].args[0])
                while den.op == "sub" and not vg.is_const(den.args[1], "capacity") and nf._index_is_shape_only(den.args[1]):
                    den = den.args[0]          # capacity[:, None]: a broadcasting view that keeps every instance's own capacity
                ok = den.op == "sub" and vg.is_const(den.args[1], "capacity") and nf.norm(den.args[0]) is cb and frc.ret is base
    ctx.ob("C19.b", "CVRPEnv.load_data:normalisation", ok, cv.loc, "the loaded file's demand := demand / capacity, once, and that same TensorDict is returned (writer stores raw integer demands and the capacity)", construct="CVRPEnv.load_data:normalise")
    # MTVRP: the loader's `scale` option must rescale exactly the keys the generator's own `scale_demand` option rescales (siblings)
    from ..envs import generator_slot as _gslot
    menv = EnvA(ctx.repo, T.ALL_ENVS["MTVRPEnv"], "MTVRPEnv")
    g_m, gsl_m = _gslot(ctx.repo, menv.cls)
    if gsl_m is None or gsl_m.td is None:
        raise AnalysisError("MTVRPGenerator._generate not analysable")
    ctx.fn(gsl_m.fi)

    def depends_on_flag(v, flag):
        return any(n.op in ("phi", "ifexp") and any(m.op == "selfattr" and m.args[0] == flag for m in vg.walk(n.args[0])) and n.args[1] is not n.args[2] for n in vg.walk(v))
    gen_scaled = {k for k, v in gsl_m.td.cells.items() if isinstance(v, vg.S) and depends_on_flag(v, "scale_demand")}
    ml = menv.resolve("load_data")
    ctx.fn(ml)
    itm = vg.Interp(ctx.repo, ml.cls, inline_policy=lambda f, a: False)
    itm.run_function(ml)
    flag_p = "scale"
    load_scaled = set()
    for e in itm.events:
        if e.kind == "methcall" and e.data[1] == "set" and len(e.data[2]) == 2 and e.data[2][0].op == "const" and any(c_.op == "param" and c_.args[0] == flag_p for c_ in e.conds if isinstance(c_, vg.S)):
            key = e.data[2][0].args[0]
            val = e.data[2][1]
            # rescaled by the original capacity: key / <loaded>['capacity_original']
            pv = nf.poly(val)
            rec = [a_ for a_ in pv.atoms() if a_.op == "recip" and any(vg.is_const(n.args[1], "capacity_original") for n in vg.walk(a_) if n.op == "sub")]
            if rec:
                load_scaled.add(key)
    if len(gen_scaled) < 2:
        raise AnalysisError(f"MTVRPGenerator: keys that depend on scale_demand not found ({sorted(gen_scaled)})")
    ok = gen_scaled == load_scaled
    ctx.ob("C19.b", "MTVRPEnv.load_data:scale-siblings", ok, ml.loc,
           f"generator (scale_demand) rescales {sorted(gen_scaled)}; load_data(scale=True) rescales {sorted(load_scaled)} by capacity_original" +
           ("" if ok else f" -- not rescaled on loading: {sorted(gen_scaled - load_scaled)}; rescaled only on loading: {sorted(load_scaled - gen_scaled)}: a file written unscaled and loaded with scale=True "
            "is not the instance the scaled generator would have produced (the capacity constraint compares normalised demands with an un-normalised capacity)"),
           construct="MTVRPEnv.load_data:scale:" + ",".join(sorted(gen_scaled ^ load_scaled)))
    # ---------------- c: FJSP text format
    w = ctx.repo.get_function(FP, "write_one")
    r = ctx.repo.get_function(FP, "read")
    pj = ctx.repo.get_function(FP, "parse_job_line")
    for f in (w, r, pj):
        ctx.fn(f)
    wsrc, rsrc, psrc = ast.unparse(w.node), ast.unparse(r.node), ast.unparse(pj.node)
    plus = order_w_placeholder = None
    minus = any(isinstance(n, ast.Subscript) and "proc_times" in ast.unparse(n.value) and isinstance(n.slice, ast.Tuple) and isinstance(n.slice.elts[0], ast.BinOp)
                and isinstance(n.slice.elts[0].op, ast.Sub) and isinstance(n.slice.elts[0].right, ast.Constant) and n.slice.elts[0].right.value == 1 for n in ast.walk(r.node))
    order_r, adv, nops_ok, why_r = fjsp_reader_layout(ctx, pj)
    # writer
    itw = vg.Interp(ctx.repo, None, inline_policy=lambda f, a: False)
    itw.run_function(w)
    evs = [e for e in itw.events if e.kind == "methcall" and e.data[1] in ("append", "extend") and e.data[2]]
    job_l = None
    for e in evs:
        if e.data[1] == "extend":
            job_l = e.data[0]
    order_w = cnt_w = False
    if job_l is not None:
        seq = [(e.data[1], e.data[2][0], len(e.conds)) for e in evs if e.data[0] is job_l]
        # one count appended per operation (depth 2), one [machine + 1, duration] pair per eligible machine (depth 3)
        apps_ = [x for x in seq if x[0] == "append"]
        exts_ = [x for x in seq if x[0] == "extend"]
        if len(apps_) == 1 and len(exts_) == 1 and apps_[0][2] + 1 == exts_[0][2]:
            cntv = apps_[0][1]
            pr = exts_[0][1]
            cnt_w = nf.dim_of(cntv) is not None and nf.dim_of(cntv)[1] == 0 and job_l.op == "list" and len(job_l.args) == 1 and nf._fn(job_l.args[0]) == "len"
            if pr.op == "list" and len(pr.args) == 2:
                m_, d_ = pr.args
                pm = nf.poly(m_)
                ints = [a_ for a_ in pm.atoms() if nf._fn(a_) == "int"]
                m_ok = len(ints) == 1 and pm == nf.Poly.atom(ints[0]) + nf.Poly.const(1) and any(n.op == "iter" for n in vg.walk(ints[0]))
                d_ok = nf._fn(d_) == "int" and any(n.op == "sub" and "proc_times" in vg.show(n, 3) for n in vg.walk(d_)) and not any(a_.op == "const" for a_ in nf.poly(d_).atoms())
                # the machine written is the machine whose processing time is written
                its_m = {n.id for n in vg.walk(m_) if n.op == "iter"}
                same_ma = any(n.op == "sub" and n.args[1].op == "tuple" and n.args[1].args and n.args[1].args[0].id in its_m for n in vg.walk(d_))
                order_w = m_ok and d_ok and same_ma
    plus = bool(order_w)
    ctx.ob("C19.c", "fjsp-parser:machine-id-shift", plus and minus, w.loc, f"writer emits int(machine) + 1: {plus}; reader stores at [ma - 1, op]: {minus}", construct="fjsp.parser:machine-shift")
    ctx.ob("C19.c", "fjsp-parser:token-order", order_w and order_r and adv and cnt_w and nops_ok, pj.loc,
           f"writer: [n_ops, (n_eligible, (machine + 1, duration of that machine)*)*]: {order_w and cnt_w}; reader: {why_r}; n_ops = first token: {nops_ok}",
           construct="fjsp.parser:token-order")
    keys_r = set()
    for n in ast.walk(r.node):
        if isinstance(n, ast.Dict):
            keys_r = {k.value for k in n.keys if isinstance(k, ast.Constant)}
    from ..envs import generator_slot
    fenv = EnvA(ctx.repo, T.ALL_ENVS["FJSPEnv"], "FJSPEnv")
    g, gsl = generator_slot(ctx.repo, fenv.cls)
    gen_keys = set(gsl.td.cells) if gsl is not None and gsl.td is not None else set()
    ctx.ob("C19.c", "fjsp-parser:keys==generator-keys", bool(keys_r) and keys_r == gen_keys, r.loc, f"file reader yields {sorted(keys_r)}; random generator yields {sorted(gen_keys)}", construct="fjsp.parser:keys")
    # padding mask: reader and random generator agree (operation index >= number of real operations)
    def pad_cmp(fn_node):
        for n in ast.walk(fn_node):
            if isinstance(n, ast.Call) and isinstance(n.func, ast.Attribute) and n.func.attr in ("ge", "gt", "le", "lt") and "arange" in ast.unparse(n.func.value) + "".join(
                    ast.unparse(a.value) for a in ast.walk(fn_node) if isinstance(a, ast.Assign) and isinstance(a.targets[0], ast.Name) and a.targets[0].id == ast.unparse(n.func.value)):
                return n.func.attr
            if isinstance(n, ast.Compare) and "arange" in ast.unparse(n.left):
                return type(n.ops[0]).__name__
        return None
    gfi = ctx.repo.resolve_method(g, "_generate") if g is not None else None
    pr, pg = pad_cmp(r.node), (pad_cmp(gfi.node) if gfi is not None else None)
    ctx.ob("C19.c", "fjsp:pad_mask-comparison", pr == "ge" and pg == "ge", r.loc,
           f"reader: arange(max_ops).{pr}(total_ops); generator: .{pg}(n_ops): padding starts exactly at the first index after the real operations", construct="fjsp.parser:pad-mask")
    # the reader computes the job spans with the generator's formulas (C18.k proves them for the generators): end = cumsum(n_ops) - 1,
    # start = cat((0, end[:-1] + 1)) -- a span shifted by one hands every job the first operation of its successor
    from .C18 import job_span_forms
    itr = vg.Interp(ctx.repo, None, inline_policy=lambda f, a: False)
    frr = itr.run_function(r)
    rt = frr.ret
    rtd = rt.items[0] if isinstance(rt, vg.Tup) and rt.items and isinstance(rt.items[0], vg.TD) else (rt if isinstance(rt, vg.TD) else None)
    if rtd is None or "end_op_per_job" not in rtd.cells or "start_op_per_job" not in rtd.cells:
        raise AnalysisError("fjsp.parser.read: returned TensorDict with start/end_op_per_job not resolved")
    ok_end, cum, pe_, ok_st, why_st = job_span_forms(rtd.cells["end_op_per_job"], rtd.cells["start_op_per_job"])
    cnt_ok = False
    if cum is not None:
        src = nf.strip(cum.args[0] if cum.op == "meth" else cum.args[1])
        # the counts are the lengths of the parsed jobs: len(x) over the list of jobs
        cnt_ok = any(nf._fn(n_) == "len" for n_ in vg.walk(src))
    ctx.ob("C19.c", "fjsp-parser:job-spans", bool(ok_end and ok_st and cnt_ok), r.loc,
           f"end_op_per_job = cumsum(operations per parsed job) - 1: {ok_end} (counts are len(job): {cnt_ok}); {why_st}", construct="fjsp.parser:job-spans")
    # ---------------- d: pickle hooks
    base = ctx.repo.get_class("rl4co/envs/common/base.py", "RL4COEnvBase")
    gs, ss = base.methods["__getstate__"], base.methods["__setstate__"]
    ctx.fn(gs)
    ctx.fn(ss)
    def is_dict_copy(x):
        return isinstance(x, vg.S) and x.op == "meth" and x.args[1] == "copy" and len(x.args) == 2 and vg.show(x.args[0], 2) == "self.__dict__"

    def updates_dict(it, par):
        return any(e.kind == "methcall" and e.data[1] == "update" and vg.show(e.data[0], 2) == "self.__dict__" and len(e.data[2]) == 1 and e.data[2][0] is par and not e.conds for e in it.events)

    itg = vg.Interp(ctx.repo, base, inline_policy=lambda f, a: False)
    rg = itg.run_function(gs).ret
    g_ok = isinstance(rg, vg.S) and rg.op == "store" and is_dict_copy(rg.args[0]) and vg.is_const(rg.args[1], "rng") and rg.args[2].op == "meth" and rg.args[2].args[1] == "get_state" \
        and rg.args[2].args[0].op == "sub" and rg.args[2].args[0].args[0] is rg.args[0] and vg.is_const(rg.args[2].args[0].args[1], "rng")
    its = vg.Interp(ctx.repo, base, inline_policy=lambda f, a: False)
    its.run_function(ss)
    par = vg.mk("param", ss.params()[1])
    rng = its.selfattrs.get("rng")
    restored = [e for e in its.events if e.kind == "methcall" and e.data[1] == "set_state" and e.data[0] is rng and len(e.data[2]) == 1 and e.data[2][0].op == "sub" and e.data[2][0].args[0] is par
                and vg.is_const(e.data[2][0].args[1], "rng") and not e.conds]
    s_ok = updates_dict(its, par) and isinstance(rng, vg.S) and rng.op == "call" and bool(restored)
    # order: state["rng"] is the saved STATE TENSOR; __dict__.update(state) binds it to self.rng, so the generator has to be
    # rebuilt after the update (the other way round the copy holds a tensor where the generator should be, and copying or
    # pickling the copy fails in __getstate__)
    upd_lines = [c.lineno for c in ast.walk(ss.node) if isinstance(c, ast.Call) and isinstance(c.func, ast.Attribute) and c.func.attr == "update" and ast.unparse(c.func.value) == "self.__dict__"]
    rng_lines = [st.lineno for st in ast.walk(ss.node) if isinstance(st, ast.Assign) and any(ast.unparse(t) == "self.rng" for t in st.targets)]
    order_ok = bool(upd_lines) and bool(rng_lines) and max(upd_lines) < min(rng_lines)
    s_ok = s_ok and order_ok
    ctx.ob("C19.d", "RL4COEnvBase:getstate/setstate", g_ok and s_ok, gs.loc, f"rng pickled as state['rng'].get_state() in a copy of __dict__: {g_ok}; restored into a fresh generator with set_state(state['rng']) after __dict__.update(state): {s_ok}", construct="RL4COEnvBase:pickle-pair")
    rb = ctx.repo.get_class("rl4co/models/rl/reinforce/baselines.py", "RolloutBaseline")
    gs, ss = rb.methods["__getstate__"], rb.methods["__setstate__"]
    ctx.fn(gs)
    ctx.fn(ss)
    itg = vg.Interp(ctx.repo, rb, inline_policy=lambda f, a: False)
    frg = itg.run_function(gs)
    V = _copy_var(gs.node)
    dels = [t for n in ast.walk(gs.node) if isinstance(n, ast.Delete) for t in n.targets if isinstance(t, ast.Subscript) and isinstance(t.value, ast.Name) and t.value.id == V
            and isinstance(t.slice, ast.Constant)]
    g_ok = is_dict_copy(frg.ret) and {t.slice.value for t in dels} == {"dataset"}
    its = vg.Interp(ctx.repo, rb, inline_policy=lambda f, a: False)
    its.run_function(ss)
    par = vg.mk("param", ss.params()[1])
    s_ok = updates_dict(its, par) and vg.is_const(its.selfattrs.get("dataset"), None)
    ctx.ob("C19.d", "RolloutBaseline:getstate/setstate", g_ok and s_ok, gs.loc, f"only the dataset is dropped from a copy of __dict__ on pickling: {g_ok}; __dict__.update(state) and dataset reset to None on restore (re-created in setup): {s_ok}", construct="RolloutBaseline:pickle-pair")
    # ---------------- e: checkpoint prefix
    lc = ctx.repo.get_function("rl4co/models/rl/reinforce/reinforce.py", "REINFORCE.load_from_checkpoint")
    ctx.fn(lc)
    itk = vg.Interp(ctx.repo, lc.cls, inline_policy=lambda f, a: False)
    frk = itk.run_function(lc)
    order = [(i, e) for i, e in enumerate(itk.events) if e.kind == "methcall"]
    # the restored module is the object whose `.baseline.load_state_dict(...)` is called
    lsd = [e for i, e in order if e.data[1] == "load_state_dict" and e.data[0].op == "attr" and e.data[0].args[1] == "baseline"]
    loaded = lsd[0].data[0].args[0] if lsd else None
    i_setup = [i for i, e in order if e.data[1] == "setup" and e.data[0] is loaded]
    i_hook = [i for i, e in order if e.data[1] == "post_setup_hook" and e.data[0] is loaded]
    loads = [(i, e) for i, e in order if e.data[1] == "load_state_dict" and e.data[0].op == "attr" and e.data[0].args[0] is loaded and e.data[0].args[1] == "baseline"]
    ok, why = False, "loaded.baseline.load_state_dict(...) not found"
    if len(loads) == 1 and loads[0][1].data[2]:
        i_load, ev = loads[0]
        arg = ev.data[2][0]
        nodes = list(vg.walk(arg)) if isinstance(arg, vg.S) else []
        strip_once = any(n.op == "meth" and n.args[1] == "replace" and len(n.args) == 5 and vg.is_const(n.args[2], "baseline.") and vg.is_const(n.args[3], "") and vg.is_const(n.args[4], 1) for n in nodes)
        select = any(n.op == "in" and isinstance(n.args[0], vg.S) and n.args[0].op == "const" and n.args[0].args[0] in ("baseline", "baseline.") for n in nodes)
        from_ckpt = any(n.op == "sub" and vg.is_const(n.args[1], "state_dict") and nf._fn(n.args[0]) == "torch.load" for n in nodes)
        before = bool(i_setup) and bool(i_hook) and max(i_setup) < i_load and max(i_hook) < i_load
        ok = strip_once and select and from_ckpt and before
        why = f"baseline.* entries of the checkpoint's state_dict are selected: {select and from_ckpt}; the 'baseline.' prefix is stripped once: {strip_once}; after setup() and post_setup_hook() created the modules that receive the state: {before}"
    ctx.ob("C19.e", "REINFORCE.load_from_checkpoint:prefix", ok, lc.loc, why, construct="REINFORCE.load_from_checkpoint:prefix")


def dataset_files_in_order(ctx: Ctx):
    """C19.g several validation / test files are matched to their dataloader names BY POSITION (`zip(names, files)` in
    `dataset`; names default to "0", "1", ...).  The list of paths built in the constructor must therefore keep the order in
    which the files were given: element-wise join, no sorted / set / reversed in between."""
    base = ctx.repo.get_class("rl4co/envs/common/base.py", "RL4COEnvBase")
    ini, ds = base.methods.get("__init__"), base.methods.get("dataset")
    if ini is None or ds is None:
        raise AnalysisError("RL4COEnvBase.__init__ / dataset not found")
    ctx.fn(ini)
    ctx.fn(ds)
    helpers = [n for n in ast.walk(ini.node) if isinstance(n, ast.FunctionDef) and n is not ini.node]
    used = {}
    for st in ast.walk(ini.node):
        if isinstance(st, ast.Assign) and isinstance(st.targets[0], ast.Attribute) and st.targets[0].attr in ("val_file", "test_file") and isinstance(st.value, ast.Call) and isinstance(st.value.func, ast.Name):
            used[st.targets[0].attr] = st.value.func.id
    if set(used) != {"val_file", "test_file"} or len(set(used.values())) != 1:
        raise AnalysisError("RL4COEnvBase.__init__: val_file / test_file are not built by one helper")
    h = [x for x in helpers if x.name == list(used.values())[0]]
    if len(h) != 1:
        raise AnalysisError("RL4COEnvBase.__init__: path helper not found")
    h = h[0]
    par = h.args.args[0].arg
    rets = []
    for blk in ast.walk(h):
        for body in (getattr(blk, "body", None), getattr(blk, "orelse", None)):
            if not isinstance(body, list):
                continue
            for i, st in enumerate(body):
                if isinstance(st, ast.Return) and st.value is not None and not (isinstance(st.value, ast.Constant) and st.value.value is None):
                    v = st.value
                    # `tmp = <expr>; return tmp`
                    if isinstance(v, ast.Name) and i > 0 and isinstance(body[i - 1], ast.Assign) and any(isinstance(t, ast.Name) and t.id == v.id for t in body[i - 1].targets):
                        v = body[i - 1].value
                    rets.append(v)
    seqs = [r for r in rets if not (isinstance(r, ast.Call) and ast.unparse(r.func).endswith("join") and not any(isinstance(x, (ast.ListComp, ast.GeneratorExp)) for x in ast.walk(r)))]
    ok, why = False, f"{len(seqs)} sequence-valued return(s)"
    if len(seqs) == 1:
        r = seqs[0]
        inner = r
        wrappers = []
        while isinstance(inner, ast.Call) and isinstance(inner.func, ast.Name) and inner.func.id in ("list", "tuple", "sorted", "set", "reversed", "frozenset") and inner.args:
            wrappers.append(inner.func.id)
            inner = inner.args[0]
        comp = inner if isinstance(inner, (ast.ListComp, ast.GeneratorExp)) else None
        in_order = comp is not None and len(comp.generators) == 1 and isinstance(comp.generators[0].iter, ast.Name) and comp.generators[0].iter.id == par and not comp.generators[0].ifs
        reorder = [w for w in wrappers if w in ("sorted", "set", "reversed", "frozenset")]
        ok = in_order and not reorder
        why = f"paths = [join(dir, f) for f in files] in the given order: {in_order}; re-ordering wrapper: {reorder or 'none'}"
    zips = [c for c in ast.walk(ds.node) if isinstance(c, ast.Call) and isinstance(c.func, ast.Name) and c.func.id == "zip" and len(c.args) == 2]
    by_pos = len(zips) == 1
    ctx.ob("C19.g", "RL4COEnvBase:dataset-files-keep-their-order", ok and by_pos, ini.loc,
           why + f"; dataset() pairs names and files by position (zip): {by_pos}" + ("" if ok else " -- a dataloader name (or position) then refers to another file than the one it was given for"),
           construct="RL4COEnvBase.__init__:file-order")


def directory_listings_sorted(ctx: Ctx):
    """C19.h instances stored one per file come back in the order they were written only if the reader enumerates the directory
    in a defined order: os.listdir / os.scandir / glob return entries in arbitrary (file-system) order, so every listing that
    feeds a loader is wrapped in sorted(...)."""
    LIST = {"os.listdir", "os.scandir", "glob.glob", "glob", "listdir", "scandir", "glob.iglob"}
    n = 0
    for mi in sorted(ctx.repo.modules.values(), key=lambda m: m.relpath):
        if not (mi.relpath.startswith("rl4co/envs/") or mi.relpath.startswith("rl4co/data/")):
            continue
        par = {}
        for a in ast.walk(mi.tree):
            for c in ast.iter_child_nodes(a):
                par[c] = a
        for c in ast.walk(mi.tree):
            if isinstance(c, ast.Call) and (ast.unparse(c.func) in LIST or (isinstance(c.func, ast.Attribute) and c.func.attr in ("iterdir", "glob", "rglob"))):
                n += 1
                up = par.get(c)
                # only a listing whose ORDER can reach a caller matters: the list (or a name bound to an expression containing
                # it) is returned or stored on the object.  A listing that is merely counted / tested for membership is not.
                fn_ = c
                while fn_ is not None and not isinstance(fn_, (ast.FunctionDef, ast.Module)):
                    fn_ = par.get(fn_)
                carriers = set()
                for st in ast.walk(fn_):
                    if isinstance(st, ast.Assign) and any(x is c for x in ast.walk(st.value)):
                        carriers |= {t.id for t in st.targets if isinstance(t, ast.Name)}
                        if any(isinstance(t, ast.Attribute) for t in st.targets):
                            carriers.add("<attribute>")
                escapes = "<attribute>" in carriers
                for st in ast.walk(fn_):
                    if isinstance(st, (ast.Return, ast.Yield)) and st.value is not None:
                        if any(x is c for x in ast.walk(st.value)) or any(isinstance(x, ast.Name) and x.id in carriers for x in ast.walk(st.value)):
                            escapes = True
                    if isinstance(st, ast.Assign) and any(isinstance(t, ast.Attribute) for t in st.targets) and any(isinstance(x, ast.Name) and x.id in carriers for x in ast.walk(st.value)):
                        escapes = True
                    if isinstance(st, ast.For) and (any(x is c for x in ast.walk(st.iter)) or any(isinstance(x, ast.Name) and x.id in carriers for x in ast.walk(st.iter))):
                        escapes = True          # iterated in listing order
                if not escapes:
                    ctx.ob("C19.h", f"{mi.relpath}:{ast.unparse(c)[:40]}:order-not-observable", True, f"{mi.relpath}:{c.lineno}",
                           "the listing is neither returned, stored nor iterated: its order cannot be observed")
                    continue
                # directly sorted, or the iterable of a comprehension that is itself sorted
                ok = isinstance(up, ast.Call) and isinstance(up.func, ast.Name) and up.func.id == "sorted"
                if not ok and isinstance(up, ast.comprehension):
                    comp = par.get(up)
                    up2 = par.get(comp)
                    ok = isinstance(up2, ast.Call) and isinstance(up2.func, ast.Name) and up2.func.id == "sorted"
                    if not ok and isinstance(up2, ast.Assign) and isinstance(up2.targets[0], ast.Name):
                        nm = up2.targets[0].id
                        fn = up2
                        while fn is not None and not isinstance(fn, (ast.FunctionDef, ast.Module)):
                            fn = par.get(fn)
                        ok = any((isinstance(x, ast.Call) and isinstance(x.func, ast.Attribute) and x.func.attr == "sort" and isinstance(x.func.value, ast.Name) and x.func.value.id == nm) or
                                 (isinstance(x, ast.Call) and isinstance(x.func, ast.Name) and x.func.id == "sorted" and x.args and isinstance(x.args[0], ast.Name) and x.args[0].id == nm)
                                 for x in ast.walk(fn))
                ctx.repo.note(mi)
                ctx.ob("C19.h", f"{mi.relpath}:{ast.unparse(c)[:40]}:sorted", ok, f"{mi.relpath}:{c.lineno}",
                       f"{ast.unparse(c)[:60]} is enumerated in sorted order: {ok}" + ("" if ok else " -- the instances of a stored batch are read back in file-system order"),
                       construct=f"{mi.relpath}:listing-order:{ast.unparse(c)[:40]}")
    if n < 2:
        raise AnalysisError(f"only {n} directory listings found in rl4co/envs and rl4co/data (FJSP and JSSP file generators have one each)")


def round_trip_conventions(ctx: Ctx):
    """C19.i three conventions that a writer / restorer shares with its reader.
    (1) FJSP text files are read back in the lexicographic order of their names (C19.h): the writer puts the instance number
        first and ZERO-PADS it (rjust / zfill / a 0Nd format), otherwise `10_...` sorts in front of `2_...`.
    (2) `REINFORCE.set_decode_type_multistart` runs again when a POMO-family model is rebuilt from a checkpoint whose pickled
        policy already carries `multistart_*` decode types: the prefix is only added when it is not there yet.
    (3) `RL4COEnvBase.dataset(filename=...)` uses an explicit file name as given (callers such as tasks/eval.py pass the path
        that generate_dataset returned); joining it with data_dir again points to a file that does not exist, and the loader's
        FileNotFoundError fallback silently substitutes freshly generated instances."""
    # (1)
    fw = ctx.repo.get_function("rl4co/envs/scheduling/fjsp/parser.py", "write_one")
    ctx.fn(fw)
    names = [st.value for st in ast.walk(fw.node) if isinstance(st, ast.Assign) and isinstance(st.value, ast.JoinedStr) and any(isinstance(v, ast.FormattedValue) for v in st.value.values)
             and any(isinstance(v, ast.Constant) and ".txt" in str(v.value) for v in st.value.values)]
    if len(names) != 1:
        raise AnalysisError(f"fjsp.parser.write_one: expected one file-name f-string, found {len(names)}")
    first = [v for v in names[0].values if isinstance(v, ast.FormattedValue)][0]
    leading = names[0].values[0] is first
    txt = ast.unparse(first.value)
    spec = ast.unparse(first.format_spec) if first.format_spec is not None else ""
    padded = ".rjust(" in txt or ".zfill(" in txt or ("0" in spec and any(ch.isdigit() for ch in spec.replace("0", "", 1)))
    ctx.ob("C19.i", "fjsp.parser.write_one:file-names-sort-in-instance-order", leading and padded, fw.loc,
           f"file name starts with the instance number: {leading}; zero-padded ({txt[:40]}{(':' + spec) if spec else ''}): {padded}" +
           ("" if leading and padded else " -- with ten or more instances the sorted directory listing is not the order of writing"),
           construct="fjsp.parser.write_one:name-padding")
    # the pad width covers the whole set: a width that is a literal (4) stops sorting at 10**4 files -- the default validation set
    # has 10 000 instances (F54).  The width expression is a name whose value `write` derives from the number of instances
    # (len(instances) reaches it), or a literal of at least 7 digits.
    wexpr = None
    for c_ in ast.walk(first.value):
        if isinstance(c_, ast.Call) and isinstance(c_.func, ast.Attribute) and c_.func.attr in ("rjust", "zfill") and c_.args:
            wexpr = c_.args[0]
    if wexpr is None and first.format_spec is not None:
        for v_ in ast.walk(first.format_spec):
            if isinstance(v_, ast.FormattedValue):
                wexpr = v_.value
    wide = False
    whyw = "pad width not recognised"
    if isinstance(wexpr, ast.Constant) and isinstance(wexpr.value, int):
        wide = wexpr.value >= 7
        whyw = f"literal width {wexpr.value}" + ("" if wide else f": the sorted listing breaks at 10**{wexpr.value} files")
    elif isinstance(wexpr, ast.Name) and wexpr.id in fw.params():
        wr = ctx.repo.get_function("rl4co/envs/scheduling/fjsp/parser.py", "write")
        ctx.fn(wr)
        kws = [k.value for c_ in ast.walk(wr.node) if isinstance(c_, ast.Call) for k in c_.keywords if k.arg == wexpr.id]
        src = None
        if len(kws) == 1:
            src = kws[0]
            if isinstance(src, ast.Name):
                defs_ = [st.value for st in ast.walk(wr.node) if isinstance(st, ast.Assign) and isinstance(st.targets[0], ast.Name) and st.targets[0].id == src.id]
                src = defs_[-1] if defs_ else None
        txtw = ast.unparse(src) if src is not None else ""
        inst = [p_ for p_ in wr.params() if p_ != "where"]
        # the digits counted are those of the LARGEST 1-based index, i.e. of len(instances) itself (or of something larger)
        exact = False
        if src is not None:
            for c_ in ast.walk(src):
                if isinstance(c_, ast.Call) and isinstance(c_.func, ast.Name) and c_.func.id == "str" and c_.args:
                    a_ = c_.args[0]
                    plus = 0
                    if isinstance(a_, ast.BinOp) and isinstance(a_.op, (ast.Add, ast.Sub)) and isinstance(a_.right, ast.Constant) and isinstance(a_.right.value, int):
                        plus = a_.right.value if isinstance(a_.op, ast.Add) else -a_.right.value
                        a_ = a_.left
                    if isinstance(a_, ast.Call) and isinstance(a_.func, ast.Name) and a_.func.id == "len" and a_.args and isinstance(a_.args[0], ast.Name) and a_.args[0].id in inst and plus >= 0:
                        exact = True
        wide = src is not None and exact and "min(" not in txtw
        whyw = f"width = {txtw[:60]} handed over by write(): derived from the number of instances -- {wide}"
    ctx.ob("C19.i", "fjsp.parser.write_one:pad-width-covers-the-set", wide, fw.loc, whyw, construct="fjsp.parser.write_one:pad-width")
    # (2)
    rc = ctx.repo.get_class("rl4co/models/rl/reinforce/reinforce.py", "REINFORCE")
    fm = rc.methods.get("set_decode_type_multistart")
    if fm is None:
        raise AnalysisError("REINFORCE.set_decode_type_multistart not found")
    ctx.fn(fm)
    par = {}
    for a in ast.walk(fm.node):
        for c in ast.iter_child_nodes(a):
            par[c] = a
    sets = [c for c in ast.walk(fm.node) if isinstance(c, ast.Call) and getattr(c.func, "id", "") == "setattr" and any(isinstance(x, ast.JoinedStr) and any(isinstance(v, ast.Constant) and "multistart" in str(v.value) for v in x.values) for x in c.args)]
    if len(sets) != 1:
        raise AnalysisError(f"REINFORCE.set_decode_type_multistart: expected one setattr(..., f'multistart_...'), found {len(sets)}")

    def excludes_prefixed(t, taken):
        """`t evaluating to <taken>` implies that "multistart" is NOT in the current value"""
        if isinstance(t, ast.UnaryOp) and isinstance(t.op, ast.Not):
            return excludes_prefixed(t.operand, not taken)
        if isinstance(t, ast.Compare) and len(t.ops) == 1 and isinstance(t.left, ast.Constant) and "multistart" in str(t.left.value):
            return (isinstance(t.ops[0], ast.In) and not taken) or (isinstance(t.ops[0], ast.NotIn) and taken)
        if isinstance(t, ast.Call) and isinstance(t.func, ast.Attribute) and t.func.attr == "startswith" and t.args and isinstance(t.args[0], ast.Constant) and "multistart" in str(t.args[0].value):
            return not taken
        if isinstance(t, ast.BoolOp) and isinstance(t.op, ast.And) and taken:
            return any(excludes_prefixed(v, True) for v in t.values)
        if isinstance(t, ast.BoolOp) and isinstance(t.op, ast.Or) and not taken:
            return any(excludes_prefixed(v, False) for v in t.values)
        return False
    guarded = False
    x = sets[0]
    while x in par:
        p_ = par[x]
        if isinstance(p_, ast.If):
            if any(x is b for b in p_.body) and excludes_prefixed(p_.test, True):
                guarded = True
            if any(x is b for b in p_.orelse) and excludes_prefixed(p_.test, False):
                guarded = True
        x = p_
    # an early `return` under `"multistart" in value` in front of the setattr is the other accepted form
    if not guarded:
        stmt = sets[0]
        while par.get(stmt) is not fm.node and stmt in par:
            stmt = par[stmt]
        if stmt in fm.node.body:
            for st in fm.node.body[:fm.node.body.index(stmt)]:
                if isinstance(st, ast.If) and excludes_prefixed(st.test, False) and any(isinstance(r, ast.Return) for r in st.body):
                    guarded = True
    ctx.ob("C19.i", "REINFORCE.set_decode_type_multistart:idempotent", guarded, fm.loc,
           f"the `multistart_` prefix is added only when the decode type does not carry it yet: {guarded}" +
           ("" if guarded else " -- a policy restored from a checkpoint gets `multistart_multistart_*`, an unknown decode type that silently falls back to sampling"),
           construct="REINFORCE.set_decode_type_multistart:prefix-twice")
    # (3)
    base = ctx.repo.get_class("rl4co/envs/common/base.py", "RL4COEnvBase")
    fd = base.methods.get("dataset")
    ctx.fn(fd)
    pn = "filename"
    if pn not in fd.params():
        raise AnalysisError("RL4COEnvBase.dataset: no `filename` parameter")
    joined = [c for c in ast.walk(fd.node) if isinstance(c, ast.Call) and ast.unparse(c.func).split(".")[-1] in ("pjoin", "join") and any(isinstance(a, ast.Name) and a.id == pn for a in c.args)]
    ctx.ob("C19.i", "RL4COEnvBase.dataset:explicit-file-name-used-as-given", not joined, fd.loc,
           "an explicit `filename` is passed to the loader unchanged" if not joined else
           f"`{ast.unparse(joined[0])[:60]}`: the explicit file name is joined with a directory again -- callers pass the path generate_dataset returned; the missing file is silently replaced by generated instances",
           construct="RL4COEnvBase.dataset:filename-rejoined")


def no_memoised_readers(ctx: Ctx):
    """C19.f what is read back is what is on disk NOW: no function of the persistence modules (npz helpers, FJSP / JSSP text
    parser and writers, dataset generation) is memoised (functools.lru_cache / cache / a hand-made module-level dict keyed by
    path): a second export to the same path must be seen by the next load."""
    mods = ["rl4co/data/utils.py", "rl4co/envs/scheduling/fjsp/parser.py", "rl4co/data/generate_data.py", "rl4co/envs/scheduling/jssp/parser.py"]
    n_fn = 0
    for path in mods:
        try:
            mi = ctx.repo.module_by_path(path)
        except AnalysisError:
            continue
        for n in ast.walk(mi.tree):
            if isinstance(n, (ast.FunctionDef, ast.AsyncFunctionDef)):
                n_fn += 1
                cached = [ast.unparse(d) for d in n.decorator_list if any(k in ast.unparse(d) for k in ("cache", "memo"))]
                if cached or n.name in ("file2lines", "read", "load_npz_to_tensordict", "parse_job_line"):
                    ctx.ob("C19.f", f"{path.split('/')[-1]}:{n.name}:not-memoised", not cached, f"{path}:{n.lineno}",
                           "reads the file on every call" if not cached else f"decorated with {cached}: a path that was read once is never read from disk again in this process",
                           construct=f"{path}:{n.name}:memoised")
    if n_fn < 8:
        raise AnalysisError(f"persistence modules: only {n_fn} functions found")


def hparams_keep_policy(ctx: Ctx):
    """C19.e a checkpoint can rebuild the policy it was saved from: RL4COLitModule.__init__ records its constructor arguments
    with save_hyperparameters and does not exclude `policy` (or `env`) -- load_from_checkpoint re-creates the module from these
    arguments and then loads the weights; without the user's policy object a default-configured policy receives them."""
    path = "rl4co/models/rl/common/base.py"
    cls = ctx.repo.get_class(path, "RL4COLitModule")
    fi = cls.methods.get("__init__")
    ctx.fn(fi)
    calls = [n for n in ast.walk(fi.node) if isinstance(n, ast.Call) and isinstance(n.func, ast.Attribute) and n.func.attr == "save_hyperparameters"]
    if not calls:
        ctx.ob("C19.e", "RL4COLitModule.__init__:save_hyperparameters", False, fi.loc, "save_hyperparameters is never called: load_from_checkpoint cannot re-create the module", construct="RL4COLitModule.__init__:hparams")
        return
    ign = []
    for c in calls:
        for k in c.keywords:
            if k.arg == "ignore":
                ign += [x.value for x in ast.walk(k.value) if isinstance(x, ast.Constant) and isinstance(x.value, str)]
        ign += [a.value for a in c.args if isinstance(a, ast.Constant) and isinstance(a.value, str)] and []
    bad = [x for x in ign if x in ("policy", "env")]
    ctx.ob("C19.e", "RL4COLitModule.__init__:save_hyperparameters", not bad, fi.loc,
           "constructor arguments incl. policy and env are recorded" if not bad else f"{bad} excluded from the recorded hyper-parameters: the restored module builds a default {bad[0]} and loads the saved weights into it",
           construct="RL4COLitModule.__init__:hparams")


def _copy_var(fn_node):
    for n in ast.walk(fn_node):
        if isinstance(n, ast.Assign) and isinstance(n.targets[0], ast.Name) and ast.unparse(n.value) == "self.__dict__.copy()":
            return n.targets[0].id
    return None


def run_thorough(ctx: Ctx):
    from ..selftest.corpus import for_prop
    from ..selftest.runner import run_corpus
    run_corpus(ctx, for_prop("C19"))
