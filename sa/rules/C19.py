"""C19 -- persistence round trips: *writer/reader agreement clauses only*.

C19.a  npz: save_tensordict_to_npz writes every (key, value) of the TensorDict and
       load_npz_to_tensordict rebuilds a TensorDict from every stored key (no filtering /
       renaming), batch size from the leading axis
C19.b  generated dataset files: keys written by generate_<problem>_data cover every key that the
       matching env's load_data transformation and _reset read
C19.c  FJSP text format: the writer's +1 on machine ids pairs with the reader's -1; token order
       (count, (machine, duration)*) is identical on both sides; the reader advances by 1 + 2*count
       and the FJSP file generator reads the same four keys the random generator produces
C19.d  pickle hooks pair: RL4COEnvBase rng state get_state <-> set_state; RolloutBaseline drops and
       re-creates `dataset`
C19.e  REINFORCE.load_from_checkpoint strips exactly the prefix it filtered on, once
"""
from __future__ import annotations

import ast

from .. import vg
from ..core import Ctx
from ..envs import EnvA
from ..model import AnalysisError
from ..tables import routing as T

FLOOR = 14
EXPLANATION = (
    "Static writer/reader agreement checks: npz save/load key sets, keys emitted by generate_<problem>_data vs keys read by the "
    "matching env's load_data and _reset (value graph of _reset), FJSP text writer vs parser (machine-id shift, token order, "
    "cursor advance), __getstate__/__setstate__ pairs, checkpoint prefix filter vs strip. These are necessary conditions for "
    "any round trip; value/dtype equality of restored objects and equality of greedy solutions after restore are not decided."
)
RULE = "one obligation per writer/reader pair clause"
DU = "rl4co/data/utils.py"
GD = "rl4co/data/generate_data.py"
FP = "rl4co/envs/scheduling/fjsp/parser.py"

# generate_<name>_data -> env class that consumes the file
WRITER_ENV = {"tsp": "TSPEnv", "vrp": "CVRPEnv", "pdp": "PDPEnv", "op": "OPEnv", "pctsp": "PCTSPEnv", "atsp": "ATSPEnv", "mdpp": "MDPPEnv"}


def dict_keys_of_returns(fn_node):
    keys = None
    for n in ast.walk(fn_node):
        if isinstance(n, ast.Return) and isinstance(n.value, ast.Dict):
            ks = {k.value for k in n.value.keys if isinstance(k, ast.Constant)}
            keys = ks if keys is None else (keys & ks)
    return keys


def run(ctx: Ctx):
    # ---------------- a: npz
    sv = ctx.repo.get_function(DU, "save_tensordict_to_npz")
    ld = ctx.repo.get_function(DU, "load_npz_to_tensordict")
    ctx.fn(sv)
    ctx.fn(ld)
    dcs = [n for n in ast.walk(sv.node) if isinstance(n, ast.DictComp)]
    ok = len(dcs) == 1 and not dcs[0].generators[0].ifs and ast.unparse(dcs[0].generators[0].iter).endswith(".items()") and \
        isinstance(dcs[0].key, ast.Name) and isinstance(dcs[0].generators[0].target, ast.Tuple) and dcs[0].key.id == dcs[0].generators[0].target.elts[0].id
    saves = [n for n in ast.walk(sv.node) if isinstance(n, ast.Call) and ast.unparse(n.func) in ("np.savez", "np.savez_compressed")]
    ok = ok and len(saves) == 2 and all(any(k.arg is None for k in c.keywords) for c in saves)
    ctx.ob("C19.a", "save_tensordict_to_npz:all-keys", ok, sv.loc, "every (key, value) of tensordict.items() is written under its own key", construct="save_tensordict_to_npz:keys")
    src = ast.unparse(ld.node)
    ok = "x_dict = dict(x)" in src.replace("x = np.load(filename)\n", "x = np.load(filename)\n") and "TensorDict(x_dict, batch_size=batch_size)" in src and ".shape[0]" in src
    ctx.ob("C19.a", "load_npz_to_tensordict:all-keys", ok, ld.loc, "TensorDict built from dict(np.load(file)) -- all keys, batch size = leading axis", construct="load_npz_to_tensordict:keys")
    nodeco = not ld.node.decorator_list
    ctx.ob("C19.a", "load_npz_to_tensordict:fresh-object", nodeco, ld.loc,
           "every call builds a new TensorDict (no memoisation): callers such as CVRPEnv.load_data modify the result in place" if nodeco else
           f"the loader is decorated with {[ast.unparse(d) for d in ld.node.decorator_list]}: repeated loads share one mutable TensorDict that load_data transformations modify in place",
           construct="load_npz_to_tensordict:decorated")
    # ---------------- b: generated datasets
    gm = ctx.repo.module_by_path(GD)
    n_pairs = 0
    for wname, cname in WRITER_ENV.items():
        fi = gm.functions.get(f"generate_{wname}_data")
        if fi is None:
            raise AnalysisError(f"generate_{wname}_data not found")
        ctx.fn(fi)
        written = dict_keys_of_returns(fi.node)
        if not written:
            raise AnalysisError(f"generate_{wname}_data: returned dict keys not found")
        env = EnvA(ctx.repo, T.ALL_ENVS[cname], cname)
        rs = env.slot("_reset")
        ctx.fn(rs.fi)
        need = set()
        intd = [t for t in rs.it.tds if t.name == "td" and t.parent is None and not t.closed and getattr(t, "cloned_from", None) is None]
        if intd:
            uids = {intd[0].uid} | {t.uid for t in rs.it.tds if getattr(t, "cloned_from", None) is intd[0]}
            for uid, key, val, node in rs.fr.reads:
                if uid in uids and isinstance(val, vg.S) and val.op == "cell0" and key != "*":
                    need.add(key)
        # keys produced / consumed by load_data
        ldf = env.resolve("load_data")
        produced_by_loader, read_by_loader = set(), set()
        if ldf is not None and ldf.cls is not None and ldf.cls.name != "RL4COEnvBase":
            ctx.fn(ldf)
            for n in ast.walk(ldf.node):
                if isinstance(n, ast.Call) and isinstance(n.func, ast.Attribute) and n.func.attr == "set" and n.args and isinstance(n.args[0], ast.Constant):
                    produced_by_loader.add(n.args[0].value)
                if isinstance(n, ast.Subscript) and isinstance(n.slice, ast.Constant) and isinstance(n.slice.value, str) and isinstance(n.ctx, ast.Load):
                    read_by_loader.add(n.slice.value)
        miss = (need - produced_by_loader - written) | (read_by_loader - written)
        n_pairs += 1
        ctx.ob("C19.b", f"generate_{wname}_data->{cname}", not miss, fi.loc,
               f"file keys {sorted(written)}; {cname}.load_data reads {sorted(read_by_loader)}; _reset reads {sorted(need)}" + (f"; MISSING in file: {sorted(miss)}" if miss else ""),
               construct=f"generate_{wname}_data:keys:{','.join(sorted(miss))}")
        ctx.sample({"writer": f"generate_{wname}_data", "env": cname, "file_keys": sorted(written), "needed": sorted(need | read_by_loader)})
    # CVRP capacity normalisation pairs with the un-normalised demand the writer emits
    cv = EnvA(ctx.repo, T.ALL_ENVS["CVRPEnv"], "CVRPEnv").resolve("load_data")
    src = ast.unparse(cv.node)
    ok = "td_load.set('demand', td_load['demand'] / td_load['capacity'][:, None])" in src
    ctx.ob("C19.b", "CVRPEnv.load_data:normalisation", ok, cv.loc, "demand := demand / capacity (writer stores raw integer demands and the capacity)", construct="CVRPEnv.load_data:normalise")
    # ---------------- c: FJSP text format
    w = ctx.repo.get_function(FP, "write_one")
    r = ctx.repo.get_function(FP, "read")
    pj = ctx.repo.get_function(FP, "parse_job_line")
    for f in (w, r, pj):
        ctx.fn(f)
    wsrc, rsrc, psrc = ast.unparse(w.node), ast.unparse(r.node), ast.unparse(pj.node)
    plus = any(isinstance(n, ast.BinOp) and isinstance(n.op, ast.Add) and isinstance(n.right, ast.Constant) and n.right.value == 1 and "machine" in ast.unparse(n.left) for n in ast.walk(w.node))
    minus = any(isinstance(n, ast.Subscript) and "proc_times" in ast.unparse(n.value) and isinstance(n.slice, ast.Tuple) and isinstance(n.slice.elts[0], ast.BinOp)
                and isinstance(n.slice.elts[0].op, ast.Sub) and isinstance(n.slice.elts[0].right, ast.Constant) and n.slice.elts[0].right.value == 1 for n in ast.walk(r.node))
    ctx.ob("C19.c", "fjsp-parser:machine-id-shift", plus and minus, w.loc, f"writer emits machine + 1: {plus}; reader stores at [ma - 1, op]: {minus}", construct="fjsp.parser:machine-shift")
    ext = [n for n in ast.walk(w.node) if isinstance(n, ast.Call) and isinstance(n.func, ast.Attribute) and n.func.attr == "extend" and isinstance(n.args[0], ast.List) and len(n.args[0].elts) == 2]
    order_w = bool(ext) and "machine" in ast.unparse(ext[0].args[0].elts[0]) and "duration" in ast.unparse(ext[0].args[0].elts[1])
    # reader: machines at idx+1 step 2, durations at idx+2 step 2
    sl = {}
    for n in ast.walk(pj.node):
        if isinstance(n, ast.Assign) and isinstance(n.value, ast.Subscript) and isinstance(n.value.slice, ast.Slice) and isinstance(n.targets[0], ast.Name):
            s_ = n.value.slice
            sl[n.targets[0].id] = (ast.unparse(s_.lower) if s_.lower else "", ast.unparse(s_.step) if s_.step else "")
    order_r = sl.get("machines", ("", ""))[0].replace(" ", "") == "idx+1" and sl.get("durations", ("", ""))[0].replace(" ", "") == "idx+2" and sl["machines"][1] == "2" and sl["durations"][1] == "2"
    adv = "idx += 1 + num_pairs" in psrc and "num_pairs = int(line[idx]) * 2" in psrc and "num_operations = line[0]" in psrc
    cnt_w = "job = [len(ops_of_job)]" in wsrc and "job.append(eligible_ma.size(0))" in wsrc
    ctx.ob("C19.c", "fjsp-parser:token-order", order_w and order_r and adv and cnt_w, pj.loc,
           f"writer: [n_ops, (n_eligible, (machine, duration)*)*]: {order_w and cnt_w}; reader: machines at idx+1::2, durations at idx+2::2: {order_r}; cursor += 1 + 2*count: {adv}",
           construct="fjsp.parser:token-order")
    keys_r = set()
    for n in ast.walk(r.node):
        if isinstance(n, ast.Dict):
            keys_r = {k.value for k in n.keys if isinstance(k, ast.Constant)}
    from ..envs import generator_slot
    fenv = EnvA(ctx.repo, T.ALL_ENVS["FJSPEnv"], "FJSPEnv")
    g, gsl = generator_slot(ctx.repo, fenv.cls)
    gen_keys = set(gsl.td.cells) if gsl is not None and gsl.td is not None else set()
    ctx.ob("C19.c", "fjsp-parser:keys==generator-keys", bool(keys_r) and keys_r == gen_keys, r.loc, f"file reader yields {sorted(keys_r)}; random generator yields {sorted(gen_keys)}", construct="fjsp.parser:keys")
    # padding mask: reader and random generator agree (operation index >= number of real operations)
    def pad_cmp(fn_node):
        for n in ast.walk(fn_node):
            if isinstance(n, ast.Call) and isinstance(n.func, ast.Attribute) and n.func.attr in ("ge", "gt", "le", "lt") and "arange" in ast.unparse(n.func.value) + "".join(
                    ast.unparse(a.value) for a in ast.walk(fn_node) if isinstance(a, ast.Assign) and isinstance(a.targets[0], ast.Name) and a.targets[0].id == ast.unparse(n.func.value)):
                return n.func.attr
            if isinstance(n, ast.Compare) and "arange" in ast.unparse(n.left):
                return type(n.ops[0]).__name__
        return None
    gfi = ctx.repo.resolve_method(g, "_generate") if g is not None else None
    pr, pg = pad_cmp(r.node), (pad_cmp(gfi.node) if gfi is not None else None)
    ctx.ob("C19.c", "fjsp:pad_mask-comparison", pr == "ge" and pg == "ge", r.loc,
           f"reader: arange(max_ops).{pr}(total_ops); generator: .{pg}(n_ops): padding starts exactly at the first index after the real operations", construct="fjsp.parser:pad-mask")
    # ---------------- d: pickle hooks
    base = ctx.repo.get_class("rl4co/envs/common/base.py", "RL4COEnvBase")
    gs, ss = base.methods["__getstate__"], base.methods["__setstate__"]
    ctx.fn(gs)
    ctx.fn(ss)
    g_src, s_src = ast.unparse(gs.node), ast.unparse(ss.node)
    V = _copy_var(gs.node)
    P = ss.params()[1]
    ok = V is not None and f"{V}['rng'] = {V}['rng'].get_state()" in g_src and f"return {V}" in g_src and f"self.__dict__.update({P})" in s_src and f"self.rng.set_state({P}['rng'])" in s_src
    ctx.ob("C19.d", "RL4COEnvBase:getstate/setstate", ok, gs.loc, "rng pickled as get_state() and restored with set_state(); all other attributes copied", construct="RL4COEnvBase:pickle-pair")
    rb = ctx.repo.get_class("rl4co/models/rl/reinforce/baselines.py", "RolloutBaseline")
    gs, ss = rb.methods["__getstate__"], rb.methods["__setstate__"]
    ctx.fn(gs)
    g_src, s_src = ast.unparse(gs.node), ast.unparse(ss.node)
    V = _copy_var(gs.node)
    P = ss.params()[1]
    ok = V is not None and f"del {V}['dataset']" in g_src and f"return {V}" in g_src and f"self.__dict__.update({P})" in s_src and "self.dataset = None" in s_src
    ctx.ob("C19.d", "RolloutBaseline:getstate/setstate", ok, gs.loc, "dataset dropped on pickling and reset to None on restore (re-created in setup); policy copy and bl_vals kept", construct="RolloutBaseline:pickle-pair")
    # ---------------- e: checkpoint prefix
    lc = ctx.repo.get_function("rl4co/models/rl/reinforce/reinforce.py", "REINFORCE.load_from_checkpoint")
    ctx.fn(lc)
    src = ast.unparse(lc.node)
    ok = "if 'baseline' in k" in src and "k.replace('baseline.', '', 1)" in src and "loaded.baseline.load_state_dict(state_dict)" in src and src.index("loaded.setup()") < src.index("load_state_dict") \
        and "loaded.post_setup_hook()" in src and src.index("loaded.post_setup_hook()") < src.index("load_state_dict")
    ctx.ob("C19.e", "REINFORCE.load_from_checkpoint:prefix", ok, lc.loc, "baseline.* entries are selected, the 'baseline.' prefix is stripped once, after setup() and post_setup_hook() created the baseline modules that receive the state", construct="REINFORCE.load_from_checkpoint:prefix")


def _copy_var(fn_node):
    for n in ast.walk(fn_node):
        if isinstance(n, ast.Assign) and isinstance(n.targets[0], ast.Name) and ast.unparse(n.value) == "self.__dict__.copy()":
            return n.targets[0].id
    return None


def run_thorough(ctx: Ctx):
    from ..selftest.corpus import for_prop
    from ..selftest.runner import run_corpus
    run_corpus(ctx, for_prop("C19"))
