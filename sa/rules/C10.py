"""C10 -- decoding distributions are proper and mask-confined.  Decided structural clauses:

C10.a  stage order in process_logits: tanh clipping -> -inf at ~mask -> temperature -> top-k ->
       top-p -> log_softmax(dim=-1), each optional stage skipping to exactly its input
C10.b  filters fill -inf (never 0), out of place, with a predicate computed from the tensor
       they filter; top-k removes `x < kth` (strict: ties and the maximum survive); top-p sorts
       ascending, removes `cumprob <= 1 - p` (the last sorted element survives) and scatters
       the decision back through the sort indices on dim -1
C10.c  selection: greedy = argmax(dim=-1) of the given log-probs, sampling = multinomial of
       exp(log-probs); both keep their infeasibility guard; Greedy/Sampling/Evaluate._step
       return the log-probs they were given
C10.d  DecodingStrategy.step forwards its own parameters (same-named) and the mask it was given
"""
from __future__ import annotations

import ast

from .. import nf, vg
from ..core import Ctx
from ..model import AnalysisError

FLOOR = 26
EXPLANATION = (
    "Static def-chain analysis of rl4co/utils/decoding.py (process_logits with the two filters inlined, DecodingStrategy.step/"
    "greedy/sampling, Greedy/Sampling/Evaluate._step): stage order tanh < mask(-inf) < temperature < top-k < top-p < log_softmax, "
    "-inf fills, strictness of the top-k and top-p predicates, ascending sort and scatter-back, argmax/multinomial over the same "
    "log-probs with infeasibility guards, parameter forwarding. Necessary conditions for 'masked actions get probability 0 and "
    "the best feasible action survives'; normalisation, shift invariance and kept probability mass are algebraic facts over a "
    "continuous input space and are not decided."
)
RULE = "one obligation per structural clause of the decoding pipeline"
DEC = "rl4co/utils/decoding.py"


def is_neg_inf(s) -> bool:
    from .C03 import is_neg_inf as f
    return f(s)


def stage_of(n):
    """-> (stage, input node, detail) for one pipeline node, or None."""
    n0 = n
    if n.op == "meth" and n.args[1] in ("masked_fill", "masked_fill_") and len(n.args) == 4:
        x, pred, v = n.args[0], n.args[2], n.args[3]
        txt = vg.show(pred, 12)
        if "mask" in vg.params_of(pred) and "logits" not in vg.params_of(pred):
            return "mask", x, {"fill": v, "pred": pred, "inplace": n.args[1].endswith("_")}
        own = list(vg.walk(pred, stop=lambda q: q is x))  # the predicate's own computation, not the history of x
        kind = "topp" if any((m.op == "meth" and m.args[1] in ("cumsum", "softmax")) or nf._fn(m) == "torch.sort" for m in own) else (
            "topk" if any(nf._fn(m) == "torch.topk" or (m.op == "meth" and m.args[1] == "topk") for m in own) else "filter?")
        return kind, x, {"fill": v, "pred": pred, "inplace": n.args[1].endswith("_")}
    if n.op == "store" and len(n.args) == 3:
        return "mask", n.args[0], {"fill": n.args[2], "pred": n.args[1], "inplace": True}
    if n.op == "/" and "temperature" in vg.params_of(n.args[1]):
        return "temp", n.args[0], {}
    if n.op == "*" and any(nf._fn(a) == "torch.tanh" or (isinstance(a, vg.S) and a.op == "meth" and a.args[1] == "tanh") for a in n.args):
        t = [a for a in n.args if nf._fn(a) == "torch.tanh" or (a.op == "meth" and a.args[1] == "tanh")][0]
        return "tanh", (t.args[1] if t.op == "call" else t.args[0]), {}
    if n.op == "param":
        return "input", None, {}
    return None


def pipeline(root):
    """Follow the enabled alternative of every optional stage from the output to the input."""
    out = []
    n = root
    guard = 0
    while n is not None and guard < 50:
        guard += 1
        if n.op in ("phi", "ifexp"):
            a, b = n.args[1], n.args[2]
            in_a = any(m is b for m in vg.walk(a))
            in_b = any(m is a for m in vg.walk(b))
            phi_ = n
            if in_a and not in_b:
                skip, n = b, a
            elif in_b and not in_a:
                skip, n = a, b
            else:
                # neither alternative is the input of the other: the stage was applied to some other tensor
                out.append(("bad-skip", n, {"why": f"when the stage is disabled the value is {vg.show(b, 2)}, which is not the tensor the enabled stage filters"}))
                n = a if stage_of(a) is not None else b
                continue
            out.append(("optional", n0_show(phi_), skip, phi_, n))
            continue
        st = stage_of(n)
        if st is None:
            raise AnalysisError(f"process_logits: unrecognised pipeline node {vg.show(n, 3)}")
        out.append((st[0], n, st[2]))
        if out and len(out) >= 2 and out[-2][0] == "optional":
            # the skipped alternative must be exactly this stage's input
            if out[-2][2] is not st[1]:
                out.append(("bad-skip", n, {}))
        n = st[1]
    return out


def n0_show(n):
    return vg.show(n, 2)


def _neg_inf(x) -> bool:
    t = vg.show(x, 3) if isinstance(x, vg.S) else str(x)
    return "inf" in t and (t.strip().startswith("-") or "-inf" in t or "-math.inf" in t or "neg" in t)


def own_distribution_decoders(ctx: Ctx):
    """C10.e decoders that build their step distribution themselves (MDAM) follow the same stage order as process_logits:
    squash (tanh clipping) FIRST, then write -inf on the masked entries, then normalise.  A squashing function applied on top of
    the -inf fill maps it to a finite value (-tanh_clipping): every masked action keeps positive probability."""
    cls = ctx.repo.get_class("rl4co/models/zoo/mdam/decoder.py", "MDAMDecoder")
    fi = cls.methods.get("_one_to_many_logits")
    if fi is None:
        raise AnalysisError("MDAMDecoder._one_to_many_logits not found")
    ctx.fn(fi)
    it = vg.Interp(ctx.repo, cls, inline_policy=lambda f, a: False)
    fr = it.run_function(fi)
    ret = fr.ret
    items = ret.items if isinstance(ret, vg.Tup) else (list(ret.args) if isinstance(ret, vg.S) and ret.op == "tuple" else [])
    if not items or not isinstance(items[0], vg.S):
        raise AnalysisError("MDAMDecoder._one_to_many_logits: does not return (logits, glimpse)")
    logits = items[0]
    SQUASH = {"tanh", "sigmoid", "clamp", "clip", "hardtanh"}

    def is_squash(n):
        return (n.op == "meth" and n.args[1] in SQUASH) or (nf._fn(n) or "").split(".")[-1] in SQUASH

    fills = [n for n in vg.walk(logits) if n.op == "store" and _neg_inf(n.args[2]) and "mask" in vg.params_of(n.args[1])]
    def is_norm(x):
        return (x.op == "meth" and x.args[1] in ("softmax", "log_softmax")) or (nf._fn(x) or "").split(".")[-1] in ("softmax", "log_softmax")
    # a fill that went through a softmax is a zero weight (the inner glimpse attention), not a logit any more
    squashed_after = [n for n in vg.walk(logits) if is_squash(n) and any(x.op == "store" and _neg_inf(x.args[2]) and "mask" in vg.params_of(x.args[1]) for x in vg.walk(n, stop=is_norm))]
    squashes = [n for n in vg.walk(logits) if is_squash(n)]
    ok = bool(fills) and bool(squashes) and not squashed_after
    ctx.ob("C10.e", "MDAMDecoder._one_to_many_logits:mask-after-clipping", ok, fi.loc,
           f"-inf fill of the masked entries present: {bool(fills)}; tanh clipping present: {bool(squashes)}; a squashing function applied on top of the fill: {bool(squashed_after)}" +
           ("" if ok else " -- the fill becomes the finite value -tanh_clipping and masked actions keep positive probability"),
           construct="MDAMDecoder._one_to_many_logits:stage-order")


def fill_before_normalisation(ctx: Ctx):
    """C10.e (2) the Pointer Network decoder builds its own step distribution (Decoder.recurrence returns log_p): on every path the
    value returned is normalised AFTER the last -inf fill -- a fill written on top of log_softmax's output removes the mass of the
    masked entries without giving it to the others, and the vector no longer sums to one."""
    cls = ctx.repo.get_class("rl4co/models/zoo/ptrnet/decoder.py", "Decoder")
    fi = cls.methods.get("recurrence")
    if fi is None:
        raise AnalysisError("ptrnet Decoder.recurrence not found")
    ctx.fn(fi)
    it = vg.Interp(ctx.repo, cls, inline_policy=lambda f, a: False)
    fr = it.run_function(fi)
    ret = fr.ret
    items = ret.items if isinstance(ret, vg.Tup) else (list(ret.args) if isinstance(ret, vg.S) and ret.op == "tuple" else [])
    if len(items) < 2 or not isinstance(items[1], vg.S):
        raise AnalysisError("ptrnet Decoder.recurrence: does not return (h_out, log_p, mask)")

    def is_norm(x):
        return (x.op == "meth" and x.args[1] in ("softmax", "log_softmax")) or (nf._fn(x) or "").split(".")[-1] in ("softmax", "log_softmax")

    def alts(v):
        v = nf.strip(v)
        if v.op in ("phi", "ifexp"):
            return alts(v.args[1]) + alts(v.args[2])
        return [v]
    avs = alts(items[1])
    bad = []
    n_norm = 0
    for v in avs:
        n_norm += any(is_norm(x) for x in vg.walk(v))
        # fills that no normalisation covers: reachable from the returned value without passing through a softmax / log_softmax
        for x in vg.walk(v, stop=is_norm):
            if x.op == "store" and _neg_inf(x.args[2]) and any(is_norm(y) for y in vg.walk(x.args[0])):
                bad.append(x)
    if not n_norm:
        raise AnalysisError("ptrnet Decoder.recurrence: no softmax / log_softmax in the returned log_p")
    ctx.ob("C10.e", "ptrnet.Decoder.recurrence:normalised-after-the-last-fill", not bad, fi.loc,
           f"{len(avs)} alternative value(s) of log_p, each normalised after its last -inf fill" if not bad else
           f"`{vg.show(bad[0], 3)[:120]}`: -inf is written on the OUTPUT of the normalisation (path mask_logits=False) and nothing re-normalises: the returned vector sums to less than one",
           construct="ptrnet.Decoder.recurrence:fill-after-normalisation")


OUT_OF_PLACE = {"masked_fill", "masked_scatter", "scatter", "scatter_add", "index_fill", "index_add", "index_copy", "clamp", "clamp_min", "clamp_max", "fill",
                "where", "add", "sub", "mul", "div", "log_softmax", "softmax", "exp", "log", "neg", "nan_to_num", "masked_select", "logical_and", "logical_or", "logical_not"}


def no_discarded_tensor_results(ctx: Ctx):
    """C10.k in the code that turns logits into the distribution (rl4co/utils/decoding.py and every decoder module of the model zoo /
    nn package), no statement consists of an out-of-place tensor method whose result is thrown away: `log_p.masked_fill(~mask,
    -inf)` as a statement does nothing -- the in-place write it was meant to be (`log_p[~mask] = -inf`, `masked_fill_`) never
    happens and infeasible actions keep their probability.  Expected count on today's tree: zero (positive controls in the corpus)."""
    import ast
    mods = [mi for mi in sorted(ctx.repo.modules.values(), key=lambda m: m.relpath)
            if mi.relpath == DEC or (mi.relpath.startswith("rl4co/models/") and ("decoder" in mi.relpath or "decoding" in mi.relpath or mi.relpath.endswith("nn/attention.py")))]
    if len(mods) < 8:
        raise AnalysisError(f"C10.k: only {len(mods)} decoding / decoder modules found (13 confirmed by hand)")
    n_stmt = 0
    bad = []
    for mi in mods:
        for st in ast.walk(mi.tree):
            if isinstance(st, ast.Expr):
                n_stmt += 1
                v = st.value
                if isinstance(v, ast.Call) and isinstance(v.func, ast.Attribute) and v.func.attr in OUT_OF_PLACE \
                        and not (isinstance(v.func.value, ast.Name) and v.func.value.id in ("torch", "F", "log", "np", "math")):
                    bad.append((mi.relpath, st.lineno, ast.unparse(v)[:70]))
    ctx.extra["expression_statements_scanned"] = n_stmt
    for rel, ln, txt in bad:
        ctx.ob("C10.k", f"{rel}:{txt.split('(')[0]}:result-discarded", False, f"{rel}:{ln}",
               f"`{txt}` is a statement of its own: the method returns a new tensor and leaves its receiver unchanged -- the masking / clamping it spells never takes effect",
               construct=f"{rel}:discarded:{txt.split('(')[0]}")
    ctx.ob("C10.k", "decoders:no-discarded-out-of-place-result", not bad, DEC, f"{len(mods)} modules, {n_stmt} expression statements scanned, {len(bad)} discarded tensor results")


def shaping_settings_stored_as_given(ctx: Ctx):
    """C10.l the settings that shape the distribution (temperature, top_p, top_k, mask_logits, tanh_clipping) reach process_logits as
    the caller gave them: DecodingStrategy.__init__ stores each as `self.x = x`, or substitutes a default for `None` only.  A
    value test in the constructor (`top_k if top_k > 1 else 0`) silently turns a legal setting (top_k = 1: only the most likely
    action may be sampled) into "filter off"."""
    import ast
    fi = ctx.repo.get_function(DEC, "DecodingStrategy.__init__")
    if fi is None:
        raise AnalysisError("DecodingStrategy.__init__ not found")
    ctx.fn(fi)
    want = ("temperature", "top_p", "top_k", "mask_logits", "tanh_clipping")
    seen = {}
    for st in ast.walk(fi.node):
        if isinstance(st, ast.Assign) and len(st.targets) == 1 and isinstance(st.targets[0], ast.Attribute) and isinstance(st.targets[0].value, ast.Name) and st.targets[0].value.id == "self" \
                and st.targets[0].attr in want:
            seen.setdefault(st.targets[0].attr, []).append(st)
    if set(seen) != set(want):
        raise AnalysisError(f"DecodingStrategy.__init__: settings not stored: {sorted(set(want) - set(seen))}")
    for nm in want:
        for st in seen[nm]:
            v = st.value
            plain = isinstance(v, ast.Name) and v.id == nm
            none_default = isinstance(v, ast.IfExp) and isinstance(v.test, ast.Compare) and len(v.test.ops) == 1 and isinstance(v.test.ops[0], (ast.Is, ast.IsNot)) \
                and isinstance(v.test.left, ast.Name) and v.test.left.id == nm and isinstance(v.test.comparators[0], ast.Constant) and v.test.comparators[0].value is None \
                and any(isinstance(b, ast.Name) and b.id == nm for b in (v.body, v.orelse))
            ok = plain or none_default
            ctx.ob("C10.l", f"DecodingStrategy.__init__:self.{nm}:stored-as-given", ok, f"{DEC}:{st.lineno}",
                   f"`{ast.unparse(st)[:80]}`" + ("" if ok else " -- the stored setting is not the one given: a range of explicit values is replaced before process_logits sees it"),
                   construct=f"DecodingStrategy.__init__:setting:{nm}")


def run(ctx: Ctx):
    fill_before_normalisation(ctx)
    no_discarded_tensor_results(ctx)
    shaping_settings_stored_as_given(ctx)
    fi = ctx.repo.get_function(DEC, "process_logits")
    ctx.fn(fi)
    for nm in ("modify_logits_for_top_k_filtering", "modify_logits_for_top_p_filtering"):
        ctx.fn(ctx.repo.get_function(DEC, nm))
    it = vg.Interp(ctx.repo, None, inline_policy=lambda f, a: True if f.name.startswith("modify_logits_for") else None)
    fr = it.run_function(fi)
    bad = [e for e in it.events if e.kind in ("unhandled-stmt", "unhandled-expr")]
    if bad:
        raise AnalysisError(f"process_logits: unhandled constructs {bad[:3]}")
    # every return path
    rets = [v for c, v in fr.returns]
    ok_ls, L = True, None
    for v in rets:
        v0 = v
        if not (nf._fn(v0) in ("torch.nn.functional.log_softmax", "torch.log_softmax") or (v0.op == "meth" and v0.args[1] == "log_softmax")):
            ok_ls = False
            continue
        args = v0.args[1:] if v0.op == "call" else v0.args[2:]
        if not nf.axis_is(v0, -1):
            ok_ls = False
        L = v0.args[1] if v0.op == "call" else v0.args[0]
    ctx.ob("C10.a", "process_logits:return=log_softmax(dim=-1)", ok_ls and len(rets) == 1, fi.loc,
           f"{len(rets)} return path(s), all log_softmax over the action axis: {ok_ls}", construct="process_logits:log_softmax")
    if L is None:
        # the function does not end in log_softmax: that IS the finding (reported above); the stages cannot be attributed
        pipe = []
    else:
        pipe = pipeline(L)
    badskip = [p for p in pipe if p[0] == "bad-skip"]
    ctx.ob("C10.a", "process_logits:optional-stages-skip-to-their-input", not badskip, fi.loc,
           "every optional stage (tanh / mask / top-k / top-p) is applied to the previous stage's result and skipping it yields exactly that result" if not badskip else
           "an optional stage is not chained on the previous stage's result (a filter is applied to a stale tensor, or the disabled path returns a different tensor): " + str(badskip[0][2].get("why", "")),
           construct="process_logits:stage-chaining")
    # each optional stage is switched on by its own setting, as documented ("If 0, do not perform"): the enabled alternative is taken
    # iff `<setting> > 0` (tanh clip, top-k, top-p) or iff the flag is true (mask), the setting being a parameter the stage itself uses
    n_opt = 0
    for p_ in pipe:
        if p_[0] != "optional":
            continue
        phi_, enabled = p_[3], p_[4]
        cond = phi_.args[0]
        first = enabled is phi_.args[1]
        used = vg.params_of(enabled) - vg.params_of(p_[2])
        okc, whyc = False, f"condition {vg.show(cond, 3)}"
        c0 = nf.strip(cond, True) if isinstance(cond, vg.S) else None
        if c0 is not None and c0.op == "param":
            okc = first
            whyc = f"flag `{c0.args[0]}` enables the stage: {okc}"
        elif isinstance(cond, vg.S) and cond.op == "or" and not first:
            # a helper's own early return `if s <= 0 or s >= 1: return logits`: enabled iff every disjunct is false, i.e. s > 0 and s < c
            lits = [nf.cmpnf(d_, negate=True) if isinstance(d_, vg.S) else None for d_ in cond.args]
            lower, upper, other = [], [], []
            for l_ in lits:
                if l_ is None:
                    other.append(l_)
                    continue
                P_, op_ = l_
                ats = P_.atoms()
                if len(ats) == 1 and nf.strip(ats[0], True).op == "param" and nf.strip(ats[0], True).args[0] in used:
                    if op_ == ">0" and P_ == nf.Poly.atom(ats[0]):
                        lower.append(l_)
                    elif op_ in (">0", ">=0") and (P_ + nf.Poly.atom(ats[0])).atoms() == [] and (P_ + nf.Poly.atom(ats[0])).const_term() >= 1:
                        upper.append(l_)          # c - s > 0 with c >= 1: the setting's documented upper end (keep everything = no filter)
                    else:
                        other.append(l_)
                else:
                    other.append(l_)
            okc = len(lower) == 1 and not other
            whyc = f"helper guard: enabled iff {[(l_[0].show(2), l_[1]) for l_ in lits if l_]}: one `setting > 0` literal {len(lower) == 1}, only upper ends besides {not other}"
        elif isinstance(cond, vg.S):
            c_ = nf.cmpnf(cond, negate=not first)
            if c_ is not None:
                P_, op_ = c_
                ats = P_.atoms()
                single = len(ats) == 1 and nf.strip(ats[0], True).op == "param" and P_ == nf.Poly.atom(ats[0])
                okc = single and op_ == ">0" and nf.strip(ats[0], True).args[0] in used
                whyc = f"stage enabled iff {P_.show(2)} {op_} (expected `<setting the stage uses> > 0`; settings used by the stage: {sorted(used)})"
        n_opt += 1
        ctx.ob("C10.a", f"process_logits:optional-stage#{n_opt}:enabled-by-its-setting", okc, fi.loc, whyc +
               ("" if okc else " -- the stage is skipped for settings that ask for it (or applied when switched off)"),
               construct=f"process_logits:stage-enable:{n_opt}")
    if L is not None:
        # the chain from the output back to the input was followed completely (pipeline() raises on anything it does not recognise), so
        # fewer than the four documented optional stages on it means a stage is bypassed, not that the analysis lost its anchor
        ctx.ob("C10.a", "process_logits:all-four-optional-stages-on-the-chain", n_opt >= 4, fi.loc,
               f"{n_opt} optional stages lie on the chain from the returned log_softmax back to the input (tanh clip, mask, top-k, top-p)" +
               ("" if n_opt >= 4 else " -- a documented stage is not applied to the value that is returned"),
               construct="process_logits:optional-stage-count")
    stages = [p[0] for p in pipe if p[0] not in ("optional", "bad-skip")]
    want = ["topp", "topk", "temp", "mask", "tanh", "input"]
    ctx.ob("C10.a", "process_logits:stage-order", stages == want, fi.loc,
           f"from the output back to the input: {stages} (expected {want}: the -inf mask must be applied after the tanh clip and before temperature / top-k / top-p)",
           construct="process_logits:stage-order")
    ctx.sample({"pipeline": stages})
    info = {p[0]: p for p in pipe if p[0] in want}
    # ---- fills
    for st in ("mask", "topk", "topp"):
        if st not in info:
            continue
        d = info[st][2]
        okf = is_neg_inf(d["fill"])
        ctx.ob("C10.b", f"process_logits:{st}:fills -inf", okf, fi.loc, f"fill value {vg.show(d['fill'], 2)}", construct=f"process_logits:{st}:fill")
    for st in ("topk", "topp"):
        if st in info:
            d = info[st][2]
            x = stage_of(info[st][1])[1]
            same = any(m is x for m in vg.walk(d["pred"]))
            ctx.ob("C10.b", f"process_logits:{st}:out-of-place on its own input", (not d["inplace"]) and same, fi.loc,
                   f"in-place: {d['inplace']}; predicate computed from the filtered tensor: {same}", construct=f"process_logits:{st}:predicate-source")
    # mask predicate is ~mask
    if "mask" in info:
        pr = nf.strip(info["mask"][2]["pred"], bool_ctx=True)
        okm = pr.op in ("inv", "not") and nf.strip(pr.args[0], True).op == "param" and nf.strip(pr.args[0], True).args[0] == "mask"
        ctx.ob("C10.b", "process_logits:mask:predicate=~mask", okm, fi.loc, f"-inf is written where {vg.show(pr, 2)}", construct="process_logits:mask:predicate")
    # ---- top-k predicate
    if "topk" in info:
        pred = info["topk"][2]["pred"]
        x = stage_of(info["topk"][1])[1]
        c = nf.cmpnf(pred)
        ok, why = False, "remove-predicate is not a comparison"
        if c is not None:
            pos = c[0].side_atoms(True)
            neg = c[0].side_atoms(False)
            kth_ok = len(pos) == 1 and any(nf._fn(m) == "torch.topk" for m in vg.walk(pos[0], stop=lambda q: q is nf.norm(x)))
            x_ok = kth_ok and (c[0] - nf.Poly.atom(pos[0])) == -nf.poly(x)
            if kth_ok:
                tk = [m for m in vg.walk(pos[0]) if nf._fn(m) == "torch.topk"][0]
                x_ok = x_ok and nf.poly(tk.args[1]) == nf.poly(x)
            last = False
            if kth_ok:
                for m in vg.walk(pos[0]):
                    if m.op == "sub" and isinstance(m.args[1], vg.S) and m.args[1].op == "tuple" and any(vg.is_const(q, -1) for q in m.args[1].args):
                        last = True
            ok = c[1] == ">0" and kth_ok and x_ok and last
            why = f"removes entries with  {c[0].show(2)} {c[1]}  (k-th largest value of the same tensor: {kth_ok and last}; strict so that ties and the maximum survive: {c[1] == '>0'})"
        ctx.ob("C10.b", "top-k:remove x < kth (strict)", ok, fi.loc, why, construct="modify_logits_for_top_k_filtering:predicate")
    # ---- top-p predicate
    if "topp" in info:
        pred = nf.strip(info["topp"][2]["pred"])
        ok, why = False, "remove-mask is not scattered back through the sort indices"
        if pred.op == "meth" and pred.args[1] == "scatter" and len(pred.args) == 5:
            base, dim, idx, src = pred.args[0], pred.args[2], pred.args[3], pred.args[4]
            sort_calls = [m for m in vg.walk(pred) if nf._fn(m) == "torch.sort"]
            asc = False
            same_sort = False
            if len(sort_calls) == 1:
                sc = sort_calls[0]
                desc = [a.args[1] for a in sc.args[1:] if a.op == "kw" and a.args[0] == "descending"]
                asc = (not desc) or vg.is_const(desc[0], False)
                same_sort = nf.strip(idx).op == "sub" and nf.strip(idx).args[0] is sc and vg.is_const(nf.strip(idx).args[1], 1)
            # the most likely action (last of the ascending order) is kept explicitly: remove[..., -1] = False
            keep_last = False
            src0 = nf.strip(src)
            if src0.op == "store" and vg.is_const(src0.args[-1], False):
                ix = src0.args[1]
                comps = list(ix.args) if ix.op == "tuple" else [ix]
                keep_last = bool(comps) and vg.is_const(comps[-1], -1) and all(c_.op in ("ellipsis", "slice") for c_ in comps[:-1])
                if keep_last:
                    src = src0.args[0]
                    if nf.strip(base) is src0:
                        base = src
            c = nf.cmpnf(src)
            thr = False
            cum_ok = False
            if c is not None:
                # remove iff cum <= 1 - p  <=>  1 - p - cum >= 0
                thr = c[1] == ">=0" and c[0].const_term() == 1 and any(a.op == "param" and a.args[0] == "top_p" for a in c[0].side_atoms(False))
                cums = [a for a in c[0].side_atoms(False) if a.op == "meth" and a.args[1] == "cumsum"]
                if cums:
                    sm = nf.strip(cums[0].args[0])
                    cum_ok = sm.op == "meth" and sm.args[1] == "softmax" and nf.axis_is(cums[0], -1) and nf.axis_is(sm, -1) and \
                        nf.strip(sm.args[0]).op == "sub" and vg.is_const(nf.strip(sm.args[0]).args[1], 0)
            ok = vg.is_const(dim, -1) and asc and same_sort and thr and cum_ok and (src is base or nf.strip(src) is nf.strip(base)) and keep_last
            why = (f"ascending sort: {asc}; cumulative softmax of the sorted values on dim -1: {cum_ok}; removes cum <= 1 - top_p: {thr}; the last (most likely) sorted entry is "
                   f"kept unconditionally -- `remove[..., -1] = False`, so rounding of 1 - top_p cannot empty the support: {keep_last}; "
                   f"scattered back with the indices of the same sort on dim -1: {same_sort and vg.is_const(dim, -1)}")
        ctx.ob("C10.b", "top-p:predicate", ok, fi.loc, why, construct="modify_logits_for_top_p_filtering:predicate")
    selection(ctx)
    forwarding(ctx)
    registry(ctx)


def selection(ctx: Ctx):
    cls = ctx.repo.get_class(DEC, "DecodingStrategy")
    # greedy
    fi = cls.methods["greedy"]
    ctx.fn(fi)
    it = vg.Interp(ctx.repo, cls)
    fr = it.run_function(fi)
    ret = fr.ret
    ok = isinstance(ret, vg.S) and ret.op == "meth" and ret.args[1] == "argmax" and ret.args[0].op == "param" and ret.args[0].args[0] == "logprobs" and \
        nf.axis_is(ret, -1)
    ctx.ob("C10.c", "greedy=argmax(logprobs, dim=-1)", ok, fi.loc, f"returns {vg.show(ret, 3)}", construct="DecodingStrategy.greedy:argmax")
    guards = [e for e in it.events if e.kind == "assert" and "mask" in vg.params_of(e.data) and any(n is ret for n in vg.walk(e.data))]
    pol = set().union(*[nf.bool_signs(e.data, "mask") for e in guards]) if guards else set()
    ctx.ob("C10.c", "greedy:infeasibility-guard", bool(guards) and all(len(e.conds) == 1 for e in guards) and pol == {+1}, fi.loc,
           f"asserts that the selected action is not masked (when a mask is given); the assertion is monotone in the mask with sign {sorted(pol)} (needs +1: feasible selections pass)", construct="DecodingStrategy.greedy:guard")
    # sampling
    fi = cls.methods["sampling"]
    ctx.fn(fi)
    it = vg.Interp(ctx.repo, cls)
    fr = it.run_function(fi)
    mult = [n for n in vg.walk(fr.ret) if nf._fn(n) == "torch.multinomial" or (n.op == "meth" and n.args[1] == "multinomial")]
    okm = bool(mult)
    for m in mult:
        src = m.args[1] if m.op == "call" else m.args[0]
        s0 = nf.strip(src)
        okm = okm and s0.op == "meth" and s0.args[1] == "exp" and nf.strip(s0.args[0]).op == "param" and nf.strip(s0.args[0]).args[0] == "logprobs"
    ctx.ob("C10.c", "sampling=multinomial(exp(logprobs))", okm, fi.loc, f"{len(mult)} multinomial draw(s), all from logprobs.exp()", construct="DecodingStrategy.sampling:multinomial")
    has_loop = any(isinstance(n, ast.While) for n in ast.walk(fi.node))
    guards = [e for e in it.events if e.kind == "assert" and "mask" in vg.params_of(e.data)]
    pol = set().union(*[nf.bool_signs(e.data, "mask") for e in guards]) if guards else set()
    loops = [e for e in it.events if e.kind == "while" and "mask" in vg.params_of(e.data)]
    lpol = set().union(*[nf.bool_signs(e.data, "mask") for e in loops]) if loops else set()
    ctx.ob("C10.c", "sampling:infeasibility-guard", has_loop and bool(guards) and pol == {+1} and lpol == {-1}, fi.loc,
           f"resampling loop: {has_loop} (continues while an infeasible action is selected: sign {sorted(lpol)}, needs -1); final assert: {bool(guards)} (sign {sorted(pol)}, needs +1)", construct="DecodingStrategy.sampling:guard")
    # subclasses return the log-probs they were given and use the shared selectors
    for cn, sel in (("Greedy", "greedy"), ("Sampling", "sampling"), ("Evaluate", None)):
        c = ctx.repo.get_class(DEC, cn)
        fi = c.methods["_step"]
        ctx.fn(fi)
        it = vg.Interp(ctx.repo, c, inline_policy=lambda f, a: False)
        fr = it.run_function(fi)
        r = fr.ret
        items = r.items if isinstance(r, vg.Tup) else (list(r.args) if isinstance(r, vg.S) and r.op == "tuple" else [])
        ok = len(items) == 3 and isinstance(items[0], vg.S) and items[0].op == "param" and items[0].args[0] == "logprobs"
        if ok and sel:
            s = it.sym(items[1])
            ok = s.op in ("call", "meth") and sel in vg.show(s, 3) and "logprobs" in vg.params_of(s) and "mask" in vg.params_of(s)
        elif ok:
            ok = it.sym(items[1]).op == "param" and it.sym(items[1]).args[0] == "action"
        ctx.ob("C10.c", f"{cn}._step", ok, fi.loc, f"returns ({', '.join(vg.show(it.sym(x), 2) for x in items)})", construct=f"{cn}._step:return")


def registry(ctx: Ctx):
    """C10.d: get_decoding_strategy falls back to Sampling for unknown names, so a name that is used anywhere in the package but is
    missing from the registry (or mapped to another class) silently decodes with the wrong selector"""
    fi = ctx.repo.get_function(DEC, "get_decoding_strategy")
    ctx.fn(fi)
    dicts = [n for n in ast.walk(fi.node) if isinstance(n, ast.Dict) and n.keys and all(isinstance(k, ast.Constant) and isinstance(k.value, str) for k in n.keys)
             and all(isinstance(v, ast.Name) for v in n.values)]
    if len(dicts) != 1:
        raise AnalysisError("get_decoding_strategy: strategy registry literal not found")
    reg = {k.value: v.id for k, v in zip(dicts[0].keys, dicts[0].values)}
    want = {"greedy": "Greedy", "sampling": "Sampling", "beam_search": "BeamSearch", "evaluate": "Evaluate"}
    bad = []
    for k, cls_ in reg.items():
        base = k.replace("multistart_", "").replace("multisample_", "")
        if base in want and want[base] != cls_:
            bad.append(f"'{k}' -> {cls_} (expected {want[base]})")
    # decode types used as literals anywhere in the package
    used = {}
    KW = {"decode_type", "train_decode_type", "val_decode_type", "test_decode_type", "decoding_strategy"}
    for mi in ctx.repo.modules.values():
        for n in ast.walk(mi.tree):
            vals = []
            if isinstance(n, ast.Call):
                vals += [(kw_.arg, kw_.value) for kw_ in n.keywords if kw_.arg in KW]
            elif isinstance(n, (ast.FunctionDef, ast.AsyncFunctionDef)):
                a = n.args
                names = [x.arg for x in a.args]
                vals += [(nm, d) for nm, d in zip(names[len(names) - len(a.defaults):], a.defaults) if nm in KW]
                vals += [(x.arg, d) for x, d in zip(a.kwonlyargs, a.kw_defaults) if d is not None and x.arg in KW]
            for nm, v in vals:
                if isinstance(v, ast.Constant) and isinstance(v.value, str):
                    used.setdefault(v.value, f"{mi.relpath}:{v.lineno}")
    missing = {k: w for k, w in used.items() if k not in reg}
    if len(used) < 4:
        raise AnalysisError(f"only {len(used)} decode-type literals found in the package")
    ok = not bad and not missing and set(want) <= set(reg)
    ctx.ob("C10.d", "get_decoding_strategy:registry", ok, fi.loc,
           f"{len(reg)} registered names, {len(used)} distinct decode-type literals used in the package, all registered and mapped to their selector class" if ok else
           "; ".join(bad + [f"decode type '{k}' (used at {w}) is not registered: get_decoding_strategy silently falls back to Sampling" for k, w in sorted(missing.items())] +
                     [f"'{k}' is not registered" for k in sorted(set(want) - set(reg))]),
           construct="get_decoding_strategy:registry:" + ",".join(sorted(list(missing) + [b.split("'")[1] for b in bad] + sorted(set(want) - set(reg)))))
    ctx.sample({"registry": reg, "decode_types_used": sorted(used)})


def forwarding(ctx: Ctx):
    step_forwarding(ctx)
    own_distribution_decoders(ctx)
    dispatch_rules(ctx)
    own_loops_select_through_the_shared_selector(ctx)
    start_sampler_draws_feasible_actions(ctx)
    beam_ranking_in_log_space(ctx)
    flags_bound_to_their_parameters(ctx)


def step_forwarding(ctx: Ctx, rid: str = "C10.d"):
    cls = ctx.repo.get_class(DEC, "DecodingStrategy")
    fi = cls.methods["step"]
    ctx.fn(fi)
    calls = [n for n in ast.walk(fi.node) if isinstance(n, ast.Call) and isinstance(n.func, ast.Name) and n.func.id == "process_logits"]
    ok, why = False, "process_logits call not found"
    if len(calls) == 1:
        c = calls[0]
        pos = [ast.unparse(a) for a in c.args]
        kws = {k.arg: ast.unparse(k.value) for k in c.keywords}
        want = {"temperature", "top_p", "top_k", "tanh_clipping", "mask_logits"}
        ok = pos[:2] == ["logits", "mask"] and set(kws) == want and all(kws[k] == f"self.{k}" for k in want)
        why = f"process_logits({', '.join(pos)}, " + ", ".join(f"{k}={v}" for k, v in sorted(kws.items())) + ")"
    ctx.ob(rid, "DecodingStrategy.step:forwarding", ok, fi.loc, why, construct="DecodingStrategy.step:process_logits-args")
    # mask only dropped when mask_logits is off
    it = vg.Interp(ctx.repo, cls, inline_policy=lambda f, a: False)
    fr = it.run_function(fi)
    pl = [n for n in _all_syms(it) if n.op == "call" and isinstance(n.args[0], vg.S) and n.args[0].op == "func" and n.args[0].args[0].endswith(":process_logits")]
    okm = False
    if pl:
        m = pl[0].args[2]
        okm = m.op in ("phi", "ifexp") and "mask_logits" in vg.selfattrs_of(m.args[0]) and any(a.op == "param" and a.args[0] == "mask" for a in m.args[1:]) and any(vg.is_const(a) and a.args[0] is None for a in m.args[1:])
    ctx.ob(rid, "DecodingStrategy.step:mask-passed", okm, fi.loc, "mask is replaced by None only under `not self.mask_logits`", construct="DecodingStrategy.step:mask")


OWN_LOOPS = [("rl4co/models/zoo/eas/decoder.py", "forward_eas"), ("rl4co/models/zoo/ptrnet/decoder.py", "Decoder.forward"),
             ("rl4co/models/zoo/matnet/decoder.py", "MultiStageFFSPDecoder.forward"), ("rl4co/models/zoo/mdam/decoder.py", "MDAMDecoder.forward")]


def own_loops_select_through_the_shared_selector(ctx: Ctx):
    """C10.g the decoders that run their own decoding loop (EAS, PtrNet, MatNet-FFSP, MDAM) pick the action with
    `decode_logprobs(logprobs, mask, ...)` -- the selector that takes the PROCESSED log-probabilities and asserts feasibility.
    Taint rule inside each such function: T = the names handed to / returned by process_logits and the names handed to
    decode_logprobs; no argmax / multinomial / topk / argmin may be applied to an expression mentioning a name of T (a raw
    `logits.argmax(-1)` is only masked when process_logits happened to mask in place, i.e. without tanh clipping), and every
    function keeps at least one decode_logprobs call whose distribution argument is in T."""
    SELECT = {"argmax", "multinomial", "topk", "argmin"}
    for path, qn in OWN_LOOPS:
        fi = ctx.repo.get_function(path, qn)
        ctx.fn(fi)
        T = set()
        calls = [n for n in ast.walk(fi.node) if isinstance(n, ast.Call)]

        def cname(c):
            return c.func.id if isinstance(c.func, ast.Name) else (c.func.attr if isinstance(c.func, ast.Attribute) else None)
        dl = [c for c in calls if cname(c) == "decode_logprobs"]
        pl = [c for c in calls if cname(c) == "process_logits"]
        for c in dl + pl:
            if c.args:
                T |= {n.id for n in ast.walk(c.args[0]) if isinstance(n, ast.Name)}
        for st in ast.walk(fi.node):
            if isinstance(st, ast.Assign) and isinstance(st.value, ast.Call) and cname(st.value) == "process_logits":
                for tg in st.targets:
                    T |= {n.id for n in ast.walk(tg) if isinstance(n, ast.Name)}
        T -= {"self"}
        if not dl:
            ctx.ob("C10.g", f"{fi.qualname}:selects-through-decode_logprobs", False, fi.loc,
                   "no decode_logprobs call left in a decoder that runs its own decoding loop", construct=f"{fi.qualname}:own-selection")
            continue
        bad = []
        for c in calls:
            nm = cname(c)
            if nm not in SELECT:
                continue
            recv = [c.func.value] if isinstance(c.func, ast.Attribute) and not (isinstance(c.func.value, ast.Name) and c.func.value.id == "torch") else list(c.args[:1])
            names = {n.id for r in recv for n in ast.walk(r) if isinstance(n, ast.Name)}
            if names & T:
                bad.append(f"{ast.unparse(c)[:60]} (line {c.lineno})")
        ctx.ob("C10.g", f"{fi.qualname}:selects-through-decode_logprobs", not bad, fi.loc,
               f"{len(dl)} decode_logprobs call(s); step-distribution names {sorted(T)}; own selections on them: {bad or 'none'}" +
               ("" if not bad else " -- the action is taken from values the mask / clipping / temperature pipeline has not (or only by an in-place side effect) been applied to, and without the feasibility assertion"),
               construct=f"{fi.qualname}:own-selection")


def start_sampler_draws_feasible_actions(ctx: Ctx):
    """C10.h ops.sample_n_random_actions (the sampler of SamplingEval and of the FJSP multi-start): sampling only ever returns
    actions of positive probability.  torch.multinomial WITHOUT replacement silently fills a row's draws with zero-probability
    entries once the row has fewer positive weights than draws, so
      * the weights of infeasible actions are exactly zero: -inf written at ~action_mask before a softmax over the ACTION axis;
      * replacement is switched off only when every row has at least n feasible actions: the guard compares n with a count of
        the mask over the ACTION axis (dim 1 / -1 of the [batch, actions] mask), minimised over the batch (or taken per row)."""
    fi = ctx.repo.get_function("rl4co/utils/ops.py", "sample_n_random_actions")
    ctx.fn(fi)
    it = vg.Interp(ctx.repo, None, inline_policy=lambda f, a: False)
    fr = it.run_function(fi)
    mult = [a for a in vg.walk(fr.ret) if nf._fn(a) == "torch.multinomial" or (a.op == "meth" and a.args[1] == "multinomial")] if isinstance(fr.ret, vg.S) else []
    if len(mult) != 1:
        raise AnalysisError(f"sample_n_random_actions: expected one multinomial draw, found {len(mult)}")
    m0 = mult[0]
    margs = list(m0.args[1:]) if m0.op == "call" else [m0.args[0]] + list(m0.args[2:])
    pos = [y for y in margs if not (isinstance(y, vg.S) and y.op == "kw")]
    kws = {k_.args[0]: k_.args[1] for k_ in margs if isinstance(k_, vg.S) and k_.op == "kw"}
    rep = kws.get("replacement", pos[2] if len(pos) > 2 else None)
    # weights
    w = nf.strip(pos[0])
    okw, whyw = False, "softmax over masked weights not found"
    if nf._fn(w) in ("torch.softmax", "torch.nn.functional.softmax") or (w.op == "meth" and w.args[1] == "softmax"):
        inner = w.args[1] if w.op == "call" else w.args[0]
        st = [x for x in vg.walk(inner) if x.op == "store" and _neg_inf(x.args[2])]
        neg = any(nf.strip(x.args[1], True).op in ("inv", "not") and "action_mask" in vg.show(x.args[1], 4) for x in st)
        ax = nf.axis_is(w, 1) or nf.axis_is(w, -1)
        okw = neg and ax
        whyw = f"-inf at ~action_mask before the softmax: {neg}; softmax over the action axis: {ax}"
    ctx.ob("C10.h", "sample_n_random_actions:infeasible-weight-zero", okw, fi.loc, whyw, construct="sample_n_random_actions:masking")
    # replacement guard
    okr, whyr = False, "replacement flag not recognised"
    if vg.is_const(rep, True):
        okr, whyr = True, "always with replacement"
    elif isinstance(rep, vg.S) and rep.op in ("phi", "ifexp"):
        cnts = [n_ for n_ in vg.walk(rep.args[0]) if (nf._fn(n_) in ("torch.sum", "torch.count_nonzero") or (n_.op == "meth" and n_.args[1] in ("sum", "count_nonzero"))) and "action_mask" in vg.show(n_, 6)]
        if cnts:
            ax = all(nf.axis_is(c_, 1) or nf.axis_is(c_, -1) for c_ in cnts)
            okr = ax
            whyr = f"the guard counts feasible actions with {vg.show(cnts[0], 3)[:80]}: over the action axis -- {ax}" + \
                ("" if ax else "; a count over the batch axis says how many INSTANCES offer a node, not how many nodes an instance offers: a row with fewer than n feasible actions is drawn without replacement")
    ctx.ob("C10.h", "sample_n_random_actions:no-replacement-needs-n-feasible-per-row", okr, fi.loc, whyr, construct="sample_n_random_actions:replacement-count-axis")


def beam_ranking_in_log_space(ctx: Ctx):
    """C10.i beam search keeps the k most likely feasible extensions: the ranking key is log p(extension) + log p(parent) (C13.b,
    shared).  Ranking exp(.) instead underflows to exactly 0 for long sequences: every extension ties at 0, masked ones
    included, and top-k returns infeasible actions."""
    from . import C13
    from ..core import Ctx as _Ctx
    sub = _Ctx("C13", ctx.repo, "quick", 0)
    import contextlib, io
    with contextlib.redirect_stdout(io.StringIO()):
        C13.run(sub)
    got = [o for o in sub.obligations if o.rule == "C13.b"]
    if not got:
        raise AnalysisError("C13.b obligations (beam score) not produced")
    for o in got:
        o.rule = "C10.i"
        ctx.obligations.append(o)


def flags_bound_to_their_parameters(ctx: Ctx):
    """C10.j a module that forwards its own option `self.A` to one of its methods binds it to the parameter named `A`.  For every
    call `self.m(...)` inside a class of rl4co/models and rl4co/utils/decoding.py whose callee is a method of that class (MRO in
    the repo): a positional argument `self.A`, where the callee has a parameter called `A`, must land on that parameter --
    `calc_logits(x, h, mask, ctx, self.mask_glimpses, self.mask_logits)` against a signature that lists `mask_logits` first
    masks the glimpses by the logits flag and the logits by the glimpse flag (PtrNet with mask_logits=False then samples
    infeasible actions)."""
    n = 0
    for name, mi in sorted(ctx.repo.modules.items()):
        if not (name.startswith("rl4co.models") or name == "rl4co.utils.decoding"):
            continue
        for cn, c in sorted(mi.classes.items()):
            for mn, fi in sorted(c.methods.items()):
                for call in ast.walk(fi.node):
                    if not (isinstance(call, ast.Call) and isinstance(call.func, ast.Attribute) and isinstance(call.func.value, ast.Name) and call.func.value.id == "self"):
                        continue
                    callee = ctx.repo.resolve_method(c, call.func.attr)
                    if callee is None or any(isinstance(a, ast.Starred) for a in call.args):
                        continue
                    params = [p_ for p_ in callee.params() if p_ != "self"]
                    for pos, a in enumerate(call.args):
                        if isinstance(a, ast.Attribute) and isinstance(a.value, ast.Name) and a.value.id == "self" and a.attr in params and pos < len(params):
                            n += 1
                            ok = params[pos] == a.attr
                            ctx.ob("C10.j", f"{cn}.{mn}:{call.func.attr}:self.{a.attr}", ok, f"{mi.relpath}:{call.lineno}",
                                   f"self.{a.attr} is passed at position {pos} of {call.func.attr}(...), parameter `{params[pos]}`" +
                                   ("" if ok else f": the callee has a parameter `{a.attr}` at position {params.index(a.attr)} -- the two options are exchanged"),
                                   construct=f"{cn}.{mn}:{call.func.attr}:positional:{a.attr}")
    if n < 2:
        raise AnalysisError(f"positional self-option arguments lost: {n} < 2 (PtrNet Decoder.recurrence -> calc_logits expected)")


def dispatch_rules(ctx: Ctx):
    """C10.f two dispatch functions stand between the caller's settings and the distribution.
    (1) `get_decoding_strategy(name, **config)` hands the caller's filter settings to the strategy unchanged: it may set the
        `multistart` / `select_best` switches it derives from the name, but never writes temperature, tanh_clipping, mask_logits,
        top_k or top_p (a `greedy` rollout records the log-probabilities of the filtered distribution, too).
    (2) `decode_logprobs(logprobs, mask, decode_type)` returns what DecodingStrategy.greedy / .sampling select, on every path:
        an early return computed from the mask alone hands rows with several feasible actions their lowest-index one."""
    PROTECTED = {"temperature", "tanh_clipping", "mask_logits", "top_k", "top_p"}
    fi = ctx.repo.get_function(DEC, "get_decoding_strategy")
    ctx.fn(fi)
    kwname = fi.node.args.kwarg.arg if fi.node.args.kwarg else None
    if kwname is None:
        raise AnalysisError("get_decoding_strategy: no **config parameter")
    writes = []
    for n in ast.walk(fi.node):
        tgts = []
        if isinstance(n, ast.Assign):
            tgts = n.targets
        elif isinstance(n, ast.AugAssign):
            tgts = [n.target]
        for t in tgts:
            for e in (t.elts if isinstance(t, ast.Tuple) else [t]):
                if isinstance(e, ast.Subscript) and isinstance(e.value, ast.Name) and e.value.id == kwname and isinstance(e.slice, ast.Constant):
                    writes.append(e.slice.value)
        if isinstance(n, ast.Call) and isinstance(n.func, ast.Attribute) and isinstance(n.func.value, ast.Name) and n.func.value.id == kwname and n.func.attr in ("update", "pop", "setdefault"):
            for a in n.args:
                if isinstance(a, ast.Constant):
                    writes.append(a.value)
                if isinstance(a, ast.Dict):
                    writes += [k.value for k in a.keys if isinstance(k, ast.Constant)]
            writes += [k.arg for k in n.keywords if k.arg]
    # the same holds for every function / constructor of the module that receives the settings as **kwargs (strategy
    # subclasses): they are handed on to DecodingStrategy.__init__ as they came
    mod = ctx.repo.module_by_path(DEC)
    for fnode in [n for n in ast.walk(mod.tree) if isinstance(n, ast.FunctionDef) and n.args.kwarg is not None and n is not fi.node]:
        kn = fnode.args.kwarg.arg
        w2 = []
        for n in ast.walk(fnode):
            tgts = n.targets if isinstance(n, ast.Assign) else ([n.target] if isinstance(n, ast.AugAssign) else [])
            for t in tgts:
                for e in (t.elts if isinstance(t, ast.Tuple) else [t]):
                    if isinstance(e, ast.Subscript) and isinstance(e.value, ast.Name) and e.value.id == kn and isinstance(e.slice, ast.Constant):
                        w2.append(e.slice.value)
            if isinstance(n, ast.Call) and isinstance(n.func, ast.Attribute) and isinstance(n.func.value, ast.Name) and n.func.value.id == kn and n.func.attr in ("update", "setdefault"):
                w2 += [k.arg for k in n.keywords if k.arg]
                for a in n.args:
                    if isinstance(a, ast.Dict):
                        w2 += [k.value for k in a.keys if isinstance(k, ast.Constant)]
                    if isinstance(a, ast.Constant):
                        w2.append(a.value)
        b2 = sorted(set(w2) & PROTECTED)
        if b2:
            ctx.ob("C10.f", f"{fnode.name}@{fnode.lineno}:settings-forwarded-unchanged", False, f"{DEC}:{fnode.lineno}",
                   f"`{fnode.name}` rewrites {b2} in the **{kn} it forwards: the caller's filter settings never reach the distribution whose log-probabilities are recorded",
                   construct=f"decoding.py:{fnode.name}:config-overwritten")
    bad = sorted(set(writes) & PROTECTED)
    ctx.ob("C10.f", "get_decoding_strategy:settings-forwarded-unchanged", not bad, fi.loc,
           f"keys of **{kwname} written by the dispatcher: {sorted(set(writes))}" + ("" if not bad else f" -- {bad} are the caller's distribution settings"),
           construct="get_decoding_strategy:config-overwritten")
    fd = ctx.repo.get_function(DEC, "decode_logprobs")
    ctx.fn(fd)
    from ..model import returned_exprs
    rets = list(returned_exprs(fd.node))
    via = [r for r in rets if isinstance(r, ast.Name) or (isinstance(r, ast.Call) and ast.unparse(r.func).split(".")[-1] in ("greedy", "sampling"))]
    names = {r.id for r in rets if isinstance(r, ast.Name)}
    defs_ok = True
    for nm in names:
        for st in ast.walk(fd.node):
            if isinstance(st, ast.Assign) and any(isinstance(t, ast.Name) and t.id == nm for t in st.targets):
                if not (isinstance(st.value, ast.Call) and ast.unparse(st.value.func).split(".")[-1] in ("greedy", "sampling")):
                    defs_ok = False
    okd = bool(rets) and len(via) == len(rets) and defs_ok
    ctx.ob("C10.f", "decode_logprobs:every-return-is-a-selection", okd, fd.loc,
           f"{len(rets)} return(s), all of them the result of DecodingStrategy.greedy / .sampling: {okd}" +
           ("" if okd else " -- a return computed some other way bypasses the selection (and its feasibility assertion)"),
           construct="decode_logprobs:return-paths")


def _all_syms(it):
    seen = set()
    for f in it.call_frames:
        for v in list(f.locals.values()):
            if isinstance(v, vg.S):
                for n in vg.walk(v):
                    if n.id not in seen:
                        seen.add(n.id)
                        yield n
    for e in it.events:
        if isinstance(e.data, vg.S):
            for n in vg.walk(e.data):
                if n.id not in seen:
                    seen.add(n.id)
                    yield n


def run_thorough(ctx: Ctx):
    from ..selftest.corpus import for_prop
    from ..selftest.runner import run_corpus
    run_corpus(ctx, for_prop("C10"))
