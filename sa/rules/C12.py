"""C12 -- replicated rollouts keep their instance.  Decided clauses:

C12.a  layout invariant: at every flatten / unflatten of a replica axis with the batch axis the
       BATCH INDEX IS THE MINOR FACTOR ("row r belongs to instance r mod B"):
       _batchify_single / _unbatchify_single, the reversed(shape) loops, every einops pattern
       that groups a batch symbol, arange(k).repeat_interleave(B) / arange(B).repeat(k)
C12.b  factor agreement: within one function the same replication factor expands and regroups
       (DecodingStrategy._select_best, POMO/SymNCO shared_step, the eval classes)
C12.c  best-of agreement: the index returned by max over the replica axis gathers actions /
       log-probs / state on that same axis
C12.d  start-index range: select_start_nodes yields indices inside the mask: depot-style envs
       skip index 0 and the number of default starts excludes the depot; PDP restricts to pickups
"""
from __future__ import annotations

import ast
import re

from .. import layout, nf, vg
from ..core import Ctx
from ..envs import generator_class
from ..model import AnalysisError
from .C10 import is_neg_inf as C10_is_neg_inf

FLOOR = 66
EXPLANATION = (
    "Static layout analysis of every site that merges/splits a replica axis with the batch axis in rl4co/utils/ops.py, "
    "utils/decoding.py, zoo/pomo, zoo/symnco, tasks/eval.py, zoo/am/decoder.py, data/transforms.py and the env "
    "select_start_nodes overrides (plus every einops pattern of the package that groups a batch symbol): the batch index must be "
    "the minor factor; replication factors agree between expansion and regrouping; argmax indices gather on the replica axis; "
    "start indices stay inside the mask given the env's depot convention. Holds for every B and k at once. Feasibility of "
    "forced starts for instance-dependent masks is a runtime question and is not decided."
)
RULE = "one obligation per layout site / factor pair / gather pair / registered env"
OPS = "rl4co/utils/ops.py"
DEC = "rl4co/utils/decoding.py"
BATCH_SYMS = {"b", "bs", "batch", "B", "batch_size"}
BATCHY = re.compile(r"(td\.shape\[0\]|batch_size|\.size\(0\)|\.shape\[0\]|bs\b)")
REPLICA = re.compile(r"(num_starts|beam_width|num_augment|n_start|n_aug|\bn\b|samples|repeats)")


def role(txt: str) -> str:
    b, r = bool(BATCHY.search(txt)), bool(REPLICA.search(txt))
    if b and not r:
        return "batch"
    if r and not b:
        return "replica"
    return "?"


def helpers(ctx: Ctx):
    fb = ctx.repo.get_function(OPS, "_batchify_single")
    fu = ctx.repo.get_function(OPS, "_unbatchify_single")
    for fi in (fb, fu):
        ctx.fn(fi)
    it = vg.Interp(ctx.repo, None)
    r = it.run_function(fb).ret
    ok, why = False, "not x.expand(repeats, *s).view(s[0] * repeats, *s[1:])"
    v = r
    if isinstance(v, vg.S) and v.op == "meth" and v.args[1] == "view":
        inner = v.args[0]
        while inner.op == "meth" and inner.args[1] == "contiguous":
            inner = inner.args[0]
        if inner.op == "meth" and inner.args[1] == "expand":
            e0 = inner.args[2]
            e_ok = e0.op == "param" and e0.args[0] == "repeats" and len(inner.args) == 4 and inner.args[3].op == "starred"
            p = nf.poly(v.args[2])
            mon = p.monos()
            def is_s0(a):
                return a.op == "sub" and vg.is_const(a.args[1], 0) and a.args[0].op == "attr" and a.args[0].args[1] == "shape"
            ats = [a for a, _ in mon[0][1]] if len(mon) == 1 else []
            v_ok = len(ats) == 2 and any(a.op == "param" and a.args[0] == "repeats" for a in ats) and any(is_s0(a) for a in ats) \
                and len(v.args) == 4 and v.args[3].op == "starred"
            ok = e_ok and v_ok
            why = f"new axis of size `repeats` is inserted in FRONT of the batch axis ({e_ok}) and merged with it by view(s[0]*repeats, ...) ({v_ok}): layout (replica, batch), batch minor"
    ctx.ob("C12.a", "_batchify_single", ok, fb.loc, why, construct="_batchify_single:layout")
    it = vg.Interp(ctx.repo, None)
    fru = it.run_function(fu)
    ok, why = False, "not x.view(repeats, s[0] // repeats, *s[1:]).permute(1, 0, ...)"
    # EVERY return path splits the leading axis (a shortcut `return x` for a factor of one drops the replica axis the callers index)
    paths = [it.sym(v) for _, v in fru.returns]
    oks = []
    for r in paths:
        ok1 = False
        if isinstance(r, vg.S) and r.op == "meth" and r.args[1] == "permute":
            v = r.args[0]
            p_ok = vg.is_const(r.args[2], 1) and vg.is_const(r.args[3], 0)
            if v.op == "meth" and v.args[1] == "view":
                a0, a1 = v.args[2], v.args[3]
                v_ok = a0.op == "param" and a0.args[0] == "repeats" and a1.op == "//" and a1.args[1] is a0
                ok1 = p_ok and v_ok
                why = f"leading axis split as (repeats, B) ({v_ok}) and transposed to (B, repeats) ({p_ok}): inverse of the (replica, batch) layout"
        oks.append(ok1)
    ok = bool(oks) and all(oks)
    if oks and not ok:
        why = f"{oks.count(False)} of {len(oks)} return path(s) do not split the leading axis as (repeats, B) and transpose it: the replica axis is missing on that path"
    ctx.ob("C12.a", "_unbatchify_single", ok, fu.loc, why, construct="_unbatchify_single:layout")
    for nm in ("batchify", "unbatchify"):
        fi = ctx.repo.get_function(OPS, nm)
        ctx.fn(fi)
        loops = [n for n in ast.walk(fi.node) if isinstance(n, ast.For)]
        single = "_" + nm + "_single"
        ok = len(loops) == 1 and isinstance(loops[0].iter, ast.Call) and getattr(loops[0].iter.func, "id", "") == "reversed" and len(loops[0].iter.args) == 1
        ok = ok and any(isinstance(n, ast.Call) and getattr(n.func, "id", "") == single for n in ast.walk(loops[0])) if loops else False
        ctx.ob("C12.a", f"{nm}:loop", ok, fi.loc, f"for s in reversed(shape): x = {single}(x, s)", construct=f"{nm}:loop-order")
        # factors <= 0 are skipped, factors >= 1 are applied (POMO passes n_aug = 0 for "no augmentation")
        it = vg.Interp(ctx.repo, None, inline_policy=lambda f, a: False)
        fr = it.run_function(fi)
        okg, whyg = False, "conditional application not found"
        for n in (vg.walk(fr.ret) if isinstance(fr.ret, vg.S) else []):
            if n.op in ("ifexp", "phi") and any(nf._fn(m) is not None and nf._fn(m).endswith(":" + single) for m in vg.walk(n.args[1])):
                r_ = nf.cmpnf(n.args[0])
                if r_ is not None:
                    d_, op_ = r_
                    its = [a for a in d_.atoms() if a.op == "iter"]
                    okg = len(its) == 1 and ((op_ == ">0" and d_ == nf.Poly.atom(its[0])) or (op_ == ">=0" and d_ == nf.Poly.atom(its[0]) - nf.Poly.const(1)))
                    whyg = f"{single} is applied iff {vg.show(n.args[0], 3)}"
        ctx.ob("C12.a", f"{nm}:skip-nonpositive", okg, fi.loc, whyg + " (needs: iff the factor is > 0)", construct=f"{nm}:factor-guard")
    fi = ctx.repo.get_function(OPS, "unbatchify_and_gather")
    ctx.fn(fi)
    it = vg.Interp(ctx.repo, None, inline_policy=lambda f, a: False)
    r = it.run_function(fi).ret
    ok = False
    if isinstance(r, vg.S) and (nf._fn(r) or "").endswith(":gather_by_index") and len(r.args) >= 3:
        src_, idx_ = r.args[1], r.args[2]
        kws = {k.args[0]: k.args[1] for k in r.args[3:] if isinstance(k, vg.S) and k.op == "kw"}
        d_ = kws.get("dim", r.args[3] if len(r.args) > 3 and r.args[3].op != "kw" else None)
        ok = (nf._fn(src_) or "").endswith(":unbatchify") and src_.args[1].op == "param" and src_.args[1].args[0] == "x" and src_.args[2].op == "param" and src_.args[2].args[0] == "n" \
            and idx_.op == "param" and idx_.args[0] == "idx" and d_ is not None and axis_of_gather_dim(d_, idx_) == ("rel", -1)
    ctx.ob("C12.c", "unbatchify_and_gather", ok, fi.loc, "gathers unbatchify(x, n) on axis idx.dim() = the replica axis created by unbatchify", construct="unbatchify_and_gather:axis")


def dim_of(a):
    """(tensor, k) when `a` is tensor.shape[k] or tensor.size(k)"""
    if isinstance(a, vg.S) and a.op == "sub" and a.args[0].op == "attr" and a.args[0].args[1] == "shape" and a.args[1].op == "const":
        return a.args[0].args[0], a.args[1].args[0]
    if isinstance(a, vg.S) and a.op == "meth" and a.args[1] == "size" and len(a.args) == 3 and a.args[2].op == "const":
        return a.args[0], a.args[2].args[0]
    return None


def axis_of_max(m):
    """axis reduced by a `.max(dim=d)` / `torch.max(x, d)` node: ('abs', d) for d >= 0, ('rel', d) for d < 0 (relative to the operand's rank)"""
    if m.op == "meth" and m.args[1] in ("max", "min"):
        rest = m.args[2:]
    elif nf._fn(m) in ("torch.max", "torch.min"):
        rest = m.args[2:]
    else:
        return None
    d = None
    for x in rest:
        if isinstance(x, vg.S) and x.op == "kw":
            if x.args[0] == "dim":
                d = x.args[1]
            elif x.args[0] == "keepdim" and not vg.is_const(x.args[1], False):
                return None
        elif d is None:
            d = x
    if not (isinstance(d, vg.S) and d.op == "const" and isinstance(d.args[0], int)):
        return None
    return ("abs", d.args[0]) if d.args[0] >= 0 else ("rel", d.args[0])


def axis_of_gather_dim(d, idx):
    """axis named by the `dim` operand of a gather whose index is `idx` = max(...)[1]: a constant, or idx.dim() (= rank of
    the reduced tensor - 1, i.e. its last axis)"""
    if isinstance(d, vg.S) and d.op == "const" and isinstance(d.args[0], int):
        return ("abs", d.args[0]) if d.args[0] >= 0 else None
    if isinstance(d, vg.S) and ((d.op == "meth" and d.args[1] in ("dim", "ndimension")) or (d.op == "attr" and d.args[1] == "ndim")) and d.args[0] is idx:
        return ("rel", -1)
    return None


def _alts(v):
    if isinstance(v, vg.S) and v.op in ("phi", "ifexp"):
        return _alts(v.args[1]) + _alts(v.args[2])
    if isinstance(v, vg.S) and v.op == "undef":
        return []
    return [v]


def best_of_pairs(it, fr):
    """every (gather, argmax) pair of a function: gather_by_index / unbatchify_and_gather nodes whose index operand is
    `max(...)[1]`; returns [(gather node, max node, gather axis, max axis, regrouping factors agree)]"""
    roots = []

    def flat(v):
        if isinstance(v, vg.S):
            return [v]
        if isinstance(v, vg.Tup):
            return [y for x in v.items for y in flat(it.sym(x) if not isinstance(x, (vg.TD, vg.Tup)) else x)]
        return []
    for f in [fr] + list(it.call_frames):
        roots += [v for v in f.locals.values() if isinstance(v, vg.S)]
        for c, v in f.returns:
            roots += flat(v)
    for e in it.events:
        if e.kind == "methcall":
            roots += [x for x in e.data[2] if isinstance(x, vg.S)]
            roots += [x for x in (e.data[3].values() if len(e.data) > 3 and isinstance(e.data[3], dict) else []) if isinstance(x, vg.S)]
    seen, out = set(), []
    for r in roots:
        for n in vg.walk(r):
            if n.id in seen:
                continue
            seen.add(n.id)
            fn = nf._fn(n) or ""
            if not (fn.endswith(":gather_by_index") or fn.endswith(":unbatchify_and_gather")) or len(n.args) < 3:
                continue
            for idx in _alts(n.args[2]):
                if not (idx.op == "sub" and vg.is_const(idx.args[1], 1)):
                    continue
                m = idx.args[0]
                am = axis_of_max(m)
                if am is None and not (m.op == "meth" and m.args[1] in ("max", "min")):
                    continue
                if fn.endswith(":unbatchify_and_gather"):
                    ag = ("rel", -1)
                else:
                    kws = {k.args[0]: k.args[1] for k in n.args[3:] if isinstance(k, vg.S) and k.op == "kw"}
                    d = kws.get("dim", n.args[3] if len(n.args) > 3 and n.args[3].op != "kw" else vg.const(1))
                    ag = axis_of_gather_dim(d, n.args[2])
                # regrouping factors of the two operands
                def fac(x):
                    fs = []
                    for a in _alts(x):
                        if (nf._fn(a) or "").endswith(":unbatchify") and len(a.args) >= 3:
                            fs.append(a.args[2])
                    return fs
                red = m.args[0] if m.op == "meth" else m.args[1]
                f_red = fac(red)
                f_src = [n.args[3]] if fn.endswith(":unbatchify_and_gather") and len(n.args) > 3 else fac(n.args[1])
                agree = None
                if f_red and f_src:
                    agree = all(a is b for a in f_red for b in f_src)
                out.append((n, m, ag, am, agree))
    return out


def einops_sites(ctx: Ctx):
    n = 0
    for mi in ctx.repo.modules.values():
        for node in ast.walk(mi.tree):
            if not (isinstance(node, ast.Call) and isinstance(node.func, ast.Name) and node.func.id in ("rearrange", "repeat", "reduce")):
                continue
            pats = [a.value for a in node.args[1:2] if isinstance(a, ast.Constant) and isinstance(a.value, str)]
            if not pats:
                continue
            try:
                l, r = layout.parse_einops(pats[0])
            except layout.PatternError:
                continue
            for side in (l, r):
                for g in layout.groups(side):
                    bsyms = [s for s in g if s in BATCH_SYMS]
                    if not bsyms:
                        continue
                    n += 1
                    ctx.repo.note(mi)
                    fn, _ = ctx.repo.locate(mi.relpath, node.lineno, node.col_offset, getattr(node, "end_lineno", 0), getattr(node, "end_col_offset", 0))
                    ok = g[-1] in BATCH_SYMS
                    ctx.ob("C12.a", f"{fn}:einops:{pats[0]}", ok, f"{mi.relpath}:{node.lineno}",
                           f'group ({" ".join(g)}) in "{pats[0]}": ' + ("batch index is the minor factor" if ok else
                           f"the batch symbol `{bsyms[0]}` is the MAJOR factor, but batchify / StateAugmentation lay replicas out as (replica, batch): the groups mix different instances"),
                           construct=f"{fn}:einops:{pats[0]}")
                    ctx.sample({"site": f"{mi.relpath}:{node.lineno}", "pattern": pats[0], "group": list(g), "batch_minor": ok})
    return n


def arange_sites(ctx: Ctx):
    files = [OPS, DEC, "rl4co/envs/routing/pdp/env.py", "rl4co/envs/routing/mtvrp/env.py", "rl4co/envs/graph/flp/env.py", "rl4co/envs/graph/mcp/env.py"]
    n = 0
    for rel in files:
        mi = ctx.repo.module_by_path(rel)
        for node in ast.walk(mi.tree):
            if not (isinstance(node, ast.Call) and isinstance(node.func, ast.Attribute) and node.func.attr in ("repeat", "repeat_interleave")):
                continue
            base = node.func.value
            while isinstance(base, ast.Call) and isinstance(base.func, ast.Attribute) and base.func.attr in ("to", "long", "int"):
                base = base.func.value
            if not (isinstance(base, ast.Call) and ast.unparse(base.func) == "torch.arange"):
                continue
            a_args = [a for a in base.args]
            a_txt = ast.unparse(a_args[-1] if len(a_args) <= 2 else a_args[1]) if a_args else ""
            if len(a_args) == 2 and isinstance(a_args[0], ast.Constant) and a_args[0].value == 0:
                a_txt = ast.unparse(a_args[1])
            r_txt = ast.unparse(node.args[0]) if node.args else ""
            ra, rr = role(a_txt), role(r_txt)
            fn, _ = ctx.repo.locate(rel, node.lineno, node.col_offset, getattr(node, "end_lineno", 0), getattr(node, "end_col_offset", 0))
            if "?" in (ra, rr):
                continue
            n += 1
            good = (ra == "replica" and rr == "batch" and node.func.attr == "repeat_interleave") or (ra == "batch" and rr == "replica" and node.func.attr == "repeat")
            ctx.ob("C12.a", f"{fn}:arange({a_txt}).{node.func.attr}({r_txt})", good, f"{rel}:{node.lineno}",
                   (f"arange over the {ra} count, {node.func.attr} by the {rr} count: row r gets " + ("replica index r // B" if ra == "replica" else "batch index r % B") if good else
                    f"arange over the {ra} count with {node.func.attr}({rr} count) yields a (batch, replica) layout, but expansion uses (replica, batch)"),
                   construct=f"{fn}:arange:{node.func.attr}")
    return n


def _interleave_calls(tree):
    """(call node, tensor text, count text) for every x.repeat_interleave(k, dim=0) / torch.repeat_interleave(x, k, dim=0) whose
    count is a replica factor: an instance-major k-fold expansion of a batch-leading tensor"""
    out = []
    for node in ast.walk(tree):
        if not (isinstance(node, ast.Call) and isinstance(node.func, ast.Attribute) and node.func.attr == "repeat_interleave"):
            continue
        if isinstance(node.func.value, ast.Name) and node.func.value.id == "torch":
            if len(node.args) < 2:
                continue
            x, k, rest = node.args[0], node.args[1], node.args[2:]
        else:
            if not node.args:
                continue
            x, k, rest = node.func.value, node.args[0], node.args[1:]
        dim = next((kw_.value for kw_ in node.keywords if kw_.arg == "dim"), rest[0] if rest else None)
        # no `dim`: torch flattens, which for the 1-D row-index vectors this is used on is the batch axis as well
        if not ((isinstance(dim, ast.Constant) and dim.value == 0) or dim is None):
            continue
        base = x
        while isinstance(base, ast.Call) and isinstance(base.func, ast.Attribute) and base.func.attr in ("to", "long", "int"):
            base = base.func.value
        if isinstance(base, ast.Call) and ast.unparse(base.func) == "torch.arange":
            continue  # index constructions are judged by arange_sites
        if role(ast.unparse(k)) == "replica":
            out.append((node, ast.unparse(x), ast.unparse(k)))
    return out


def expansion_sites(ctx: Ctx):
    """k-fold expansions outside ops.batchify: repeat_interleave(k, dim=0) yields rows (b, r) -> b*k + r, i.e. instance-major,
    while every regrouping (unbatchify, best-of) assumes the (replica, batch) layout of batchify"""
    # positive control: the detector must match a known instance-major expansion and ignore a tiling
    ctl = ast.parse("def f(x, num_starts):\n    a = x.repeat_interleave(num_starts, dim=0)\n    b = x.repeat(num_starts, 1)\n    return a, b")
    if len(_interleave_calls(ctl)) != 1:
        raise AnalysisError("positive control of the expansion-site detector failed")
    n = 0
    for mi in ctx.repo.modules.values():
        if not mi.name.startswith("rl4co.models") and not mi.name.startswith("rl4co.utils") and not mi.name.startswith("rl4co.tasks"):
            continue
        hits = _interleave_calls(mi.tree)
        for node, x_txt, k_txt in hits:
            ctx.repo.note(mi)
            fn, _ = ctx.repo.locate(mi.relpath, node.lineno, node.col_offset, getattr(node, "end_lineno", 0), getattr(node, "end_col_offset", 0))
            n += 1
            ctx.ob("C12.a", f"{fn}:repeat_interleave({k_txt}, dim=0)", False, f"{mi.relpath}:{node.lineno}",
                   f"`{x_txt}` is expanded {k_txt}-fold with repeat_interleave on the batch axis: row b*k + r holds instance b (instance-major), but batchify / unbatchify / the "
                   f"replicated env state use row r*B + b (batch-minor): replica rows are paired with other instances' tensors", construct=f"{fn}:interleave:{x_txt}")
    ctx.ob("C12.a", "package:no-instance-major-expansion", n == 0, "rl4co/utils/ops.py:1",
           "no tensor is expanded by a replica factor with repeat_interleave(k, dim=0) in rl4co.models / rl4co.utils / rl4co.tasks (detector exercised on a positive control)" if n == 0 else f"{n} instance-major expansion(s), see above",
           construct="package:interleave-expansions")
    return n


def norm_factor(txt: str):
    """product normal form of a replication factor expression: tuple -> product of elements"""
    t = ast.parse(txt, mode="eval").body
    elems = t.elts if isinstance(t, (ast.Tuple, ast.List)) else [t]
    out = []
    for e in elems:
        if isinstance(e, ast.BinOp) and isinstance(e.op, ast.Mult):
            out += [ast.unparse(e.left), ast.unparse(e.right)]
        else:
            out.append(ast.unparse(e))
    return tuple(sorted(out))


def factor_sites(ctx: Ctx):
    specs = [
        (DEC, "DecodingStrategy._select_best", ("unbatchify", "unbatchify_and_gather"), False),
        ("rl4co/models/zoo/pomo/model.py", "POMO.shared_step", ("unbatchify",), True),
        ("rl4co/models/zoo/symnco/model.py", "SymNCO.shared_step", ("unbatchify",), True),
        ("rl4co/tasks/eval.py", "AugmentationEval._inner", ("batchify", "unbatchify"), False),
        ("rl4co/tasks/eval.py", "GreedyMultiStartEval._inner", ("batchify", "unbatchify"), False),
        ("rl4co/tasks/eval.py", "GreedyMultiStartAugmentEval._inner", ("batchify", "unbatchify"), False),
    ]
    pending = {}
    for rel, fn, names, exact in specs:
        fi = ctx.repo.get_function(rel, fn)
        ctx.fn(fi)
        facs = []
        for node in ast.walk(fi.node):
            if isinstance(node, ast.Call) and isinstance(node.func, ast.Name) and node.func.id in names and node.args:
                f = node.args[-1]
                facs.append((node.func.id, ast.unparse(f), node.lineno))
        if len(facs) < 2:
            pending[fn] = f"{fn}: expected several (un)batchify calls, found {len(facs)}"
            continue
        if exact:
            ok = len({t for _, t, _ in facs}) == 1
        else:
            ok = len({norm_factor(t) for _, t, _ in facs}) == 1
        ctx.ob("C12.b", f"{fn}:factors", ok, fi.loc, f"replication factors used: {[(a, t) for a, t, _ in facs]}" + ("" if ok else " -- expansion and regrouping use different factors"),
               construct=f"{fn}:factor-agreement")
    # nesting order: the batch is augmented first (rows (aug, batch)) and expanded for multi-start inside the policy (rows
    # (start, aug, batch)); unbatchify(x, (f1, .., fk)) peels fk off the MAJOR end first, so the multi-start factor -- the value
    # handed to the policy as num_starts -- has to be the LAST element of the regrouping tuple
    from ..units import roots_of
    for rel, fn in (("rl4co/models/zoo/pomo/model.py", "POMO.shared_step"), ("rl4co/models/zoo/symnco/model.py", "SymNCO.shared_step")):
        fi = ctx.repo.get_function(rel, fn)
        ctx.fn(fi)
        it = vg.Interp(ctx.repo, fi.cls, inline_policy=lambda f, a: False)
        fr = it.run_function(fi)
        seen_, pol, regs = set(), [], []
        for r_ in roots_of(it, fr):
            for n in vg.walk(r_):
                if n.id in seen_:
                    continue
                seen_.add(n.id)
                if n.op == "meth" and n.args[0].op == "self" and n.args[1] == "policy":
                    ns = [k.args[1] for k in n.args[2:] if isinstance(k, vg.S) and k.op == "kw" and k.args[0] == "num_starts"]
                    pol += ns
                if (nf._fn(n) or "").endswith(":unbatchify") and len(n.args) >= 3 and n.args[2].op == "tuple" and len(n.args[2].args) == 2:
                    regs.append(n)
        if len(pol) != 1 or len(regs) < 2:
            raise AnalysisError(f"{fn}: policy(num_starts=..) call / two-factor regroupings not found ({len(pol)}, {len(regs)})")
        wrong = [n for n in regs if n.args[2].args[-1] is not pol[0]]
        ok = not wrong
        ctx.ob("C12.b", f"{fn}:nesting-order", ok, fi.loc,
               f"{len(regs)} two-factor regroupings: the multi-start factor (the policy's num_starts, outermost expansion) is the last tuple element in each" if ok else
               f"{len(wrong)} of {len(regs)} regroupings put the multi-start factor first: rows are laid out (start, aug, batch) -- the policy expands the already augmented batch -- "
               "but unbatchify(x, (n_start, n_aug)) reads them as (aug, start, batch); with both factors > 1 the [B, n_start, n_aug] cells hold other (start, aug) rollouts",
               construct=f"{fn}:nesting:" + ("ok" if ok else "multistart-factor-first"))
    # best-of agreement: the axis the argmax was taken over is the axis the index is gathered on, and both operands were
    # regrouped with the same factor
    sites = [("rl4co/tasks/eval.py", "AugmentationEval._inner", 1), ("rl4co/tasks/eval.py", "GreedyMultiStartEval._inner", 1),
             ("rl4co/tasks/eval.py", "GreedyMultiStartAugmentEval._inner", 1), (DEC, "DecodingStrategy._select_best", 3),
             ("rl4co/models/zoo/pomo/model.py", "POMO.shared_step", 2)]
    for rel, fn, floor in sites:
        fi = ctx.repo.get_function(rel, fn)
        ctx.fn(fi)
        it = vg.Interp(ctx.repo, fi.cls, inline_policy=lambda f, a: False)
        fr = it.run_function(fi)
        pairs = best_of_pairs(it, fr)
        if fn.endswith("._select_best"):
            # everything handed back (log-probs, actions, final state) is the best replica's: gathered with one and the same argmax
            ret = fr.ret
            items = ret.items if isinstance(ret, vg.Tup) else (list(ret.args) if isinstance(ret, vg.S) and ret.op == "tuple" else [])
            idxs, plain = [], []
            for i_, x in enumerate(items[:3]):
                x = it.sym(x) if not isinstance(x, (vg.TD, vg.Tup)) else x
                f_ = nf._fn(x) if isinstance(x, vg.S) else None
                if f_ is not None and (f_.endswith(":unbatchify_and_gather") or f_.endswith(":gather_by_index")) and len(x.args) >= 3:
                    idxs.append(x.args[2])
                else:
                    plain.append(i_)
            same_idx = len(idxs) == 3 and all(i_ is idxs[0] for i_ in idxs) and idxs[0].op == "sub" and vg.is_const(idxs[0].args[1], 1)
            ctx.ob("C12.c", f"{fn}:all-outputs-of-best-replica", same_idx, fi.loc,
                   "log-probs, actions and final state are all gathered with the same argmax index" if same_idx else
                   f"returned item(s) {plain} are not gathered with the argmax index: they belong to another replica than the returned actions (state-derived rewards / solutions disagree with the actions)",
                   construct=f"{fn}:outputs")
            floor = min(floor, max(1, len(pairs)))
        if len(pairs) < floor:
            # not the library's (argmax, gather_by_index) idiom.  One form IS decidable: the selection ends in a dimension-less
            # squeeze, which also removes the batch axis for a batch of one instance
            sq = [c for c in ast.walk(fi.node) if isinstance(c, ast.Call) and isinstance(c.func, ast.Attribute) and c.func.attr == "squeeze" and not c.args and not c.keywords
                  and any(isinstance(x, ast.Call) and ast.unparse(x.func).split(".")[-1] in ("take_along_dim", "gather", "index_select") for x in ast.walk(c.func.value))]
            if sq:
                ctx.ob("C12.c", f"{fn}:selection-keeps-the-batch-axis", False, fi.loc,
                       f"`{ast.unparse(sq[0])[:80]}`: the best rollout is picked with a raw gather and a dimension-less squeeze -- for one instance the batch axis is squeezed away too",
                       construct=f"{fn}:selection-squeeze-all")
                continue
            raise AnalysisError(f"{fn}: expected >= {floor} (argmax, gather) pairs, found {len(pairs)}")
        bad = [(g, m, ag, am, agree) for g, m, ag, am, agree in pairs if ag is None or am is None or ag != am or agree is False]
        # operands regrouped by a plain view(-1, k) / reshape(-1, k): that splits the flat axis instance-major, but replicas are laid out (replica, batch)
        wrong_split = []
        for g, m, ag, am, agree in pairs:
            red = m.args[0] if m.op == "meth" else m.args[1]
            srcs = [red] + ([g.args[1]] if len(g.args) > 1 and isinstance(g.args[1], vg.S) else [])
            for x in srcs:
                for a in _alts(x):
                    while isinstance(a, vg.S) and a.op == "nograd":
                        a = a.args[0]
                    if a.op == "meth" and a.args[1] in ("view", "reshape") and len(a.args) >= 4 and vg.is_const(a.args[2], -1) and not a.args[3].op == "const":
                        wrong_split.append(vg.show(a, 3))
        ok = not bad and not wrong_split
        why = f"{len(pairs)} (argmax, gather) pair(s): " + "; ".join(f"max over {am}, gather on {ag}" + ("" if agree is None else f", same regrouping factor: {agree}") for _, _, ag, am, agree in pairs[:4])
        if wrong_split:
            why += f" -- operand regrouped as {wrong_split[0]}: view(-1, k) groups k CONSECUTIVE rows, but the k replicas of instance b sit at rows b, b+B, b+2B, ... (batch-minor layout): best-of mixes different instances"
            pending.pop(fn, None)
        ctx.ob("C12.c", f"{fn}:best-of", ok, fi.loc, why, construct=f"{fn}:best-of-axis")
    if pending:
        raise AnalysisError("; ".join(pending.values()))


def start_nodes(ctx: Ctx):
    """C12.d on the generic helpers in utils/ops.py, cross-checked against the env registry."""
    import ast as _ast
    gs = ctx.repo.get_function(OPS, "get_num_starts")
    ss = ctx.repo.get_function(OPS, "select_start_nodes")
    ctx.fn(gs)
    ctx.fn(ss)

    def name_lists(fi, var_txt):
        out = []
        for n in _ast.walk(fi.node):
            if isinstance(n, _ast.Compare) and _ast.unparse(n.left) == var_txt:
                c = n.comparators[0]
                if isinstance(n.ops[0], _ast.In) and isinstance(c, (_ast.List, _ast.Tuple)):
                    out.append([e.value for e in c.elts if isinstance(e, _ast.Constant)])
                elif isinstance(n.ops[0], _ast.Eq) and isinstance(c, _ast.Constant):
                    out.append([c.value])
        return out
    gl = name_lists(gs, "env_name")
    sl = name_lists(ss, "env.name")
    minus_one = set(next((l for l in gl if len(l) > 1), []))
    pdp_special = any(l == ["pdp"] for l in gl)
    no_depot = set(next((l for l in sl if "tsp" in l), []))
    unsupported = set(next((l for l in sl if "jssp" in l), []))
    if not minus_one or not no_depot:
        raise AnalysisError("get_num_starts / select_start_nodes: env-name tables not found")
    # ---- the formulas, on the value graph
    def replica_index(x):
        """x == arange(num_starts).repeat_interleave(<batch size>) % M  ->  M (else None)"""
        if not (isinstance(x, vg.S) and x.op == "%"):
            return None
        a = nf.strip(x.args[0])
        if not (a.op == "meth" and a.args[1] == "repeat_interleave" and len(a.args) >= 3):
            return None
        ar, rep = nf.strip(a.args[0]), a.args[2]
        if nf._fn(ar) != "torch.arange":
            return None
        pos = [y for y in ar.args[1:] if not (isinstance(y, vg.S) and y.op == "kw")]
        if not (len(pos) == 1 and pos[0].op == "param" and pos[0].args[0] == "num_starts"):
            return None
        if not ((dim_of(rep) is not None and dim_of(rep)[1] == 0) or (rep.op == "sub" and vg.is_const(rep.args[1], 0) and rep.args[0].op == "attr" and rep.args[0].args[1] == "batch_size")):
            return None
        return x.args[1]

    def guarded(v, g=()):
        if isinstance(v, vg.S) and v.op in ("phi", "ifexp"):
            yield from guarded(v.args[1], g + ((v.args[0], True),))
            yield from guarded(v.args[2], g + ((v.args[0], False),))
        else:
            yield g, v

    it = vg.Interp(ctx.repo, None, inline_policy=lambda f, a: False)
    fr = it.run_function(ss)
    alts = [(g, v) for c, v0 in fr.returns for g, v in guarded(v0)]
    # width-relative modulus of the two branches of the generic helper (computed from the instance's action mask)
    def width_offset(M):
        """k when M == action_mask.shape[-1] - k, else None"""
        if not isinstance(M, vg.S):
            return None
        pm = nf.poly(M)
        ws = [a_ for a_ in pm.atoms() if dim_of(a_) is not None and dim_of(a_)[1] == -1 and "action_mask" in vg.show(dim_of(a_)[0], 3)]
        if len(ws) != 1:
            return None
        rest = nf.Poly.atom(ws[0]) - pm
        mon = rest.monos()
        if not mon:
            return 0
        if len(mon) == 1 and not mon[0][1] and mon[0][0].denominator == 1:
            return int(mon[0][0])
        return None
    depot_offsets, plain_offsets = set(), set()
    for g_, v_ in alts:
        if not isinstance(v_, vg.S) or (nf._fn(v_) or "").endswith("rearrange"):
            continue
        if v_.op == "%":
            plain_offsets.add(width_offset(replica_index(v_)))
        else:
            mods_ = [a_ for a_ in nf.poly(v_).atoms() if a_.op == "%"]
            if len(mods_) == 1:
                depot_offsets.add(width_offset(replica_index(mods_[0])))
    # registry: env name -> class
    reg_mi = ctx.repo.module("rl4co.envs")
    reg = reg_mi.assigns.get("ENV_REGISTRY")
    if reg is None or not isinstance(reg, _ast.Dict):
        raise AnalysisError("ENV_REGISTRY not found")
    n = 0
    for k, v in zip(reg.keys, reg.values):
        name = k.value
        r = ctx.repo.resolve_global(reg_mi, v.id) if isinstance(v, _ast.Name) else None
        if r is None or r[0] != "class":
            continue
        cls = r[1]
        own_sel = ctx.repo.resolve_method(cls, "select_start_nodes")
        own_num = ctx.repo.resolve_method(cls, "get_num_starts")
        overrides = (own_sel is not None and own_sel.cls.name != "RL4COEnvBase") or (own_num is not None and own_num.cls.name != "RL4COEnvBase")
        if overrides or name in unsupported:
            continue
        n += 1
        if name in no_depot:
            ok, why = name not in minus_one and (plain_offsets <= {0, None}), "no depot: indices 0..k-1 of a mask of width k"
        else:
            # depot-style branch: selected = arange(k) % num_loc + 1 ; in range iff k <= width - 1 or the modulo wraps (generator.num_loc exists)
            g = generator_class(ctx.repo, cls)
            has_num_loc = False
            if g is not None:
                for c in ctx.repo.mro(g):
                    if isinstance(c, str):
                        continue
                    for m in c.methods.values():
                        for a in _ast.walk(m.node):
                            if isinstance(a, _ast.Attribute) and isinstance(a.value, _ast.Name) and a.value.id == "self" and a.attr == "num_loc" and isinstance(a.ctx, _ast.Store):
                                has_num_loc = True
            counted = name in minus_one or (name == "pdp" and pdp_special)
            wraps = depot_offsets == {1}
            ok = counted or has_num_loc or wraps
            why = (f"index 0 is skipped (+1); default number of starts excludes it: {counted}; the index is wrapped modulo (mask width - 1): {wraps}" +
                   ("" if ok else f" -- with the default num_starts = mask width the selected indices run up to the mask width itself (out of range) for env '{name}'"))
        ctx.ob("C12.d", f"start-range:{name}", ok, ss.loc, why, construct=f"select_start_nodes:range:{name}")
    n_plain = n_depot = 0
    ok, why = True, []
    op_alt = None
    for g, v in alts:
        names_true = set()
        for t, b in g:
            if b and t.op in ("in", "==") and "name" in vg.show(t.args[0], 2):
                c = t.args[1]
                names_true |= set(x.args[0] for x in (c.args if c.op in ("list", "tuple") else [c]) if x.op == "const") if c.op in ("list", "tuple") else ({c.args[0]} if c.op == "const" else set())
        if (nf._fn(v) or "").endswith("rearrange"):
            op_alt = (g, v)
            continue
        if names_true & no_depot:
            m_ = replica_index(v)
            n_plain += 1
            if m_ is None:
                ok = False
                why.append(f"no-depot branch returns {vg.show(v, 4)}")
        else:
            d1 = None
            if isinstance(v, vg.S):
                pv = nf.poly(v)
                mods = [a for a in pv.atoms() if a.op == "%"]
                if len(mods) == 1 and pv == nf.Poly.atom(mods[0]) + nf.Poly.const(1):
                    d1 = replica_index(mods[0])
            n_depot += 1
            if d1 is None:
                ok = False
                why.append(f"depot branch returns {vg.show(v, 4)}")
    ok = ok and n_plain >= 1 and n_depot >= 1
    if depot_offsets != {1} or plain_offsets != {0}:
        ok = False
        why.append(f"modulus = mask width - {sorted(map(str, plain_offsets))} (no-depot branch, needs 0) / mask width - {sorted(map(str, depot_offsets))} (depot branch, needs 1): "
                   "otherwise an index can reach the mask width or the wrap-around skips nodes")
    ctx.ob("C12.d", "select_start_nodes:formula", ok, ss.loc, f"replica index r // B modulo num_loc ({n_plain} no-depot alternative(s)), + 1 for depot-style envs ({n_depot} alternative(s))" + ("; " + "; ".join(why) if why else ""),
           construct="select_start_nodes:formula")
    # ---- start feasibility: envs whose FIRST-step mask is restricted by construction (OP: length budget; DPP / MDPP: keep-out and
    #      probe cells) need starts drawn from the mask's support on every path; `arange(k) % n (+ 1)` ignores the mask
    RESTRICTED_FIRST_MASK = {"op": "customers beyond the length budget are closed at the first step",
                             "dpp": "keep-out and probe cells are closed", "mdpp": "keep-out and probe cells are closed",
                             "svrp": "customers whose required skill exceeds the first (least skilled) technician's level are closed"}

    def consults_mask(v):
        for n_ in vg.walk(v):
            if nf._fn(n_) in ("torch.multinomial", "torch.where", "torch.nonzero") or (n_.op == "meth" and n_.args[1] in ("multinomial", "masked_fill", "nonzero")):
                if "action_mask" in vg.cells_of(n_) or "action_mask" in vg.show(n_, 6):
                    return True
        return False
    for nm_, why_ in RESTRICTED_FIRST_MASK.items():
        paths = []
        for g, v in alts:
            reaches = True
            for t, b in g:
                if t.op in ("in", "==") and "name" in vg.show(t.args[0], 2):
                    c = t.args[1]
                    nms = {x.args[0] for x in (c.args if c.op in ("list", "tuple") else [c]) if isinstance(x, vg.S) and x.op == "const"}
                    if (nm_ in nms) != bool(b):
                        reaches = False
            if reaches and isinstance(v, vg.S):
                paths.append(v)
        if not paths:
            continue
        bad_paths = [v for v in paths if not consults_mask(v)]
        ctx.ob("C12.d", f"start-feasibility:{nm_}", not bad_paths, ss.loc,
               f"every path that selects starts for '{nm_}' draws them from the action mask" if not bad_paths else
               f"'{nm_}': {why_}, but {len(bad_paths)} of {len(paths)} selection path(s) return {vg.show(bad_paths[0], 3)[:90]} without consulting td['action_mask']: "
               "a forced start can be infeasible although enough feasible, distinct starts exist", construct=f"select_start_nodes:feasibility:{nm_}")
    # the modulus that wraps the replica index is the instance's own node count (a td shape), not a configuration value of the env
    def modulus_source(M):
        """'instance' when M is computed from tensor shapes of the instance; 'config' when it reads generator / env attributes"""
        if not isinstance(M, vg.S):
            return "?"
        cfg = [n for n in vg.walk(M) if (n.op == "attr" and n.args[1] in ("num_loc", "num_customers", "num_nodes") and "generator" in vg.show(n.args[0], 3)) or
               (n.op == "selfattr" and n.args[0] in ("num_loc",))]
        inst = [n for n in vg.walk(M) if dim_of(n) is not None]
        if cfg:
            return "config"
        return "instance" if inst else "?"
    mods_generic = [replica_index(v) if isinstance(v, vg.S) and v.op == "%" else next((replica_index(a) for a in (nf.poly(v).atoms() if isinstance(v, vg.S) else []) if a.op == "%"), None) for g, v in alts]
    srcs_generic = sorted({modulus_source(m) for m in mods_generic if m is not None})
    ctx.ob("C12.d", "select_start_nodes:modulus-from-instance", srcs_generic == ["instance"], ss.loc,
           "the replica index is wrapped modulo the node count of the instance at hand" if srcs_generic == ["instance"] else
           "the replica index is wrapped modulo env.generator.num_loc, a configuration value: for an instance with more customers than the env was configured for "
           "(e.g. a loaded benchmark file) the forced starts repeat although enough distinct feasible starts exist", construct="select_start_nodes:modulus:env.generator.num_loc")
    for rel_, fq_ in (("rl4co/envs/routing/pdp/env.py", "PDPEnv.select_start_nodes"), ("rl4co/envs/routing/mtvrp/env.py", "MTVRPEnv.select_start_nodes"),
                      ("rl4co/envs/graph/flp/env.py", "FLPEnv.select_start_nodes"), ("rl4co/envs/graph/mcp/env.py", "MCPEnv.select_start_nodes")):
        f_ = ctx.repo.get_function(rel_, fq_)
        ctx.fn(f_)
        it_ = vg.Interp(ctx.repo, f_.cls, inline_policy=lambda f, a: False)
        r_ = it_.run_function(f_).ret
        ms = [replica_index(a) for a in ([r_] if isinstance(r_, vg.S) and r_.op == "%" else (nf.poly(r_).atoms() if isinstance(r_, vg.S) else [])) if a.op == "%"]
        ms = [m for m in ms if m is not None]
        src_ = sorted({modulus_source(m) for m in ms})
        ctx.ob("C12.d", f"{fq_}:modulus-from-instance", src_ == ["instance"], f_.loc,
               f"start index = replica index modulo a node count read from the instance tensors: {src_}" if src_ == ["instance"] else
               f"the modulus of the start index is {src_ or 'not recognised'}: it must be the node count of the instance at hand, not a configuration value of the env's generator",
               construct=f"{fq_}:modulus")
    # OP: starts are re-drawn from the feasible non-depot nodes exactly when some instance has fewer than num_starts of them
    okp, whyp = False, "OP resampling alternative not found"
    if op_alt is not None:
        g, v = op_alt
        tests = [t for t, b in g if b and t.op == "meth" and t.args[1] == "any"]
        is_op = any(b and t.op == "==" and any(vg.is_const(x, "op") for x in t.args) for t, b in g)
        src = v.args[1] if len(v.args) > 1 else None
        pv = nf.poly(src) if isinstance(src, vg.S) else None
        mult = [a for a in (pv.atoms() if pv is not None else []) if nf._fn(a) == "torch.multinomial"]
        f_ok = len(mult) == 1 and pv == nf.Poly.atom(mult[0]) + nf.Poly.const(1)
        c_ok = False
        if tests:
            r_ = nf.cmpnf(tests[0].args[0])
            if r_ is not None:
                d_, op_ = r_
                # num_starts - feasible > 0
                k = nf.poly(vg.mk("param", "num_starts"))
                rest = k - d_
                sums = [a for a in rest.atoms() if a.op == "meth" and a.args[1] == "sum"]
                c_ok = op_ == ">0" and len(sums) == 1 and rest == nf.Poly.atom(sums[0]) and "action_mask" in vg.cells_of(sums[0]) | {c for c in ("action_mask",) if "action_mask" in vg.show(sums[0], 6)}
        w_ok = False
        if mult:
            m0 = mult[0]
            pos = [y for y in m0.args[1:] if not (isinstance(y, vg.S) and y.op == "kw")]
            kws = {k_.args[0]: k_.args[1] for k_ in m0.args[1:] if isinstance(k_, vg.S) and k_.op == "kw"}
            w = nf.strip(pos[0]) if pos else None
            # weights = the mask without its depot column
            w_ok = w is not None and "action_mask" in vg.show(w, 6) and len(pos) >= 2 and pos[1].op == "param" and pos[1].args[0] == "num_starts" and vg.is_const(kws.get("replacement", vg.const(False)), True)
            tsub = tests[0].args[0] if tests else None
        pat = v.args[2].args[0] if len(v.args) > 2 and v.args[2].op == "const" else ""
        try:
            order = layout.merged_order(pat)
        except Exception:
            order = None
        l_ok = order is not None and order[-1] in BATCH_SYMS
        okp = is_op and f_ok and c_ok and w_ok and l_ok
        whyp = f"only for env 'op': {is_op}; condition = some row has fewer than num_starts feasible non-depot nodes (strict): {c_ok}; multinomial over the mask (replacement) + 1: {f_ok and w_ok}; flattened batch-minor: {l_ok}"
    ctx.ob("C12.d", "select_start_nodes:op-resample", okp, ss.loc, whyp, construct="select_start_nodes:op-resample")
    # default number of starts
    it = vg.Interp(ctx.repo, None, inline_policy=lambda f, a: False)
    frg = it.run_function(gs)
    w_ = None
    okn, whyn = True, []
    seen = {"pdp": 0, "depot": 0, "plain": 0}
    for c, v0 in frg.returns:
        for g, v in guarded(v0):
            kind = "plain"
            for t, b in g:
                if b and t.op == "==" and any(vg.is_const(x, "pdp") for x in t.args):
                    kind = "pdp"
                elif b and t.op == "in":
                    kind = "depot"
            widths = [a for a in vg.walk(v) if dim_of(a) is not None and dim_of(a)[1] == -1 and "action_mask" in vg.show(dim_of(a)[0], 3)]
            if len(widths) != 1:
                okn = False
                whyn.append(f"{kind}: mask width not found in {vg.show(v, 4)}")
                continue
            W = nf.poly(widths[0])
            seen[kind] += 1
            if kind == "plain":
                good = nf.poly(v) == W
            elif kind == "depot":
                good = nf.poly(v) == W - nf.Poly.const(1)
            else:
                vv = nf.strip(v)
                good = vv.op == "//" and vg.is_const(vv.args[1], 2) and nf.poly(vv.args[0]) == W - nf.Poly.const(1)
            if not good:
                okn = False
                whyn.append(f"{kind}: returns {vg.show(v, 4)}")
    okn = okn and all(seen.values())
    ctx.ob("C12.d", "get_num_starts:formula", okn, gs.loc, "mask width W for depot-less envs, W - 1 when index 0 is a depot / dummy node, (W - 1) // 2 for PDP (pickups)" + ("; " + "; ".join(whyn) if whyn else ""),
           construct="get_num_starts:formula")
    # PDP: pickups only
    fi = ctx.repo.get_function("rl4co/envs/routing/pdp/env.py", "PDPEnv.select_start_nodes")
    ctx.fn(fi)
    it = vg.Interp(ctx.repo, fi.cls, inline_policy=lambda f, a: False)
    r = it.run_function(fi).ret
    ok = False
    if isinstance(r, vg.S):
        pv = nf.poly(r)
        mods = [a for a in pv.atoms() if a.op == "%"]
        if len(mods) == 1 and pv == nf.Poly.atom(mods[0]) + nf.Poly.const(1):
            M = replica_index(mods[0])
            M = nf.strip(M) if M is not None else None
            if M is not None and M.op == "//" and vg.is_const(M.args[1], 2):
                inner = nf.poly(M.args[0])
                ws = [a for a in inner.atoms() if dim_of(a) is not None and dim_of(a)[1] == -2 and "locs" in vg.show(dim_of(a)[0], 4)]
                ok = len(ws) == 1 and inner == nf.Poly.atom(ws[0]) - nf.Poly.const(1)
    ctx.ob("C12.d", "PDPEnv.select_start_nodes:pickups", ok, fi.loc, "start index = replica % ((num_nodes - 1) // 2) + 1: pickups only", construct="PDPEnv.select_start_nodes:range")
    # sampled starts: infeasible nodes get probability 0, replacement only when fewer than n valid actions exist
    fi = ctx.repo.get_function(OPS, "sample_n_random_actions")
    ctx.fn(fi)
    it = vg.Interp(ctx.repo, None, inline_policy=lambda f, a: False)
    fr = it.run_function(fi)
    mult = [a for a in vg.walk(fr.ret) if nf._fn(a) == "torch.multinomial"] if isinstance(fr.ret, vg.S) else []
    ok, why = False, "multinomial draw not found"
    okm, whym = False, "masking of the sampling weights not found"
    if len(mult) == 1:
        m0 = mult[0]
        pos = [y for y in m0.args[1:] if not (isinstance(y, vg.S) and y.op == "kw")]
        kws = {k_.args[0]: k_.args[1] for k_ in m0.args[1:] if isinstance(k_, vg.S) and k_.op == "kw"}
        rep = kws.get("replacement", pos[2] if len(pos) > 2 else None)
        if isinstance(rep, vg.S) and rep.op in ("phi", "ifexp"):
            t, a, b = rep.args
            r_ = nf.cmpnf(t)
            if r_ is not None and vg.is_const(a, True) and vg.is_const(b, False):
                d_, op_ = r_
                n_ = nf.poly(vg.mk("param", "n"))
                rest = n_ - d_
                ok = op_ == ">0" and len(rest.atoms()) == 1 and "action_mask" in vg.show(rest.atoms()[0], 6) and rest == nf.Poly.atom(rest.atoms()[0])
                why = f"replacement = True iff {vg.show(t, 4)}" + ("" if ok else ": must be strictly fewer valid actions than requested (with exactly n valid actions the n starts have to be distinct)")
        w = nf.strip(pos[0]) if pos else None
        if w is not None and nf._fn(w) in ("torch.softmax", "torch.nn.functional.softmax") or (w is not None and w.op == "meth" and w.args[1] == "softmax"):
            inner = w.args[1] if w.op == "call" else w.args[0]
            st = [x for x in vg.walk(inner) if x.op == "store"]
            okm = len(st) == 1 and nf.strip(st[0].args[1], True).op in ("inv", "not") and "action_mask" in vg.show(st[0].args[1], 4) and C10_is_neg_inf(st[0].args[2])
            whym = "weights[~action_mask] = -inf before the softmax: infeasible actions have probability exactly 0"
    ctx.ob("C12.d", "sample_n_random_actions:replacement-only-if-needed", ok, fi.loc, why, construct="sample_n_random_actions:replacement")
    # the number of valid actions is counted over the same columns that can be drawn
    oks, whys = False, "count of valid actions not found"
    if len(mult) == 1 and isinstance(rep, vg.S) and rep.op in ("phi", "ifexp"):
        cnts = [n_ for n_ in vg.walk(rep.args[0]) if (nf._fn(n_) in ("torch.sum", "torch.count_nonzero") or (n_.op == "meth" and n_.args[1] in ("sum", "count_nonzero"))) and "action_mask" in vg.show(n_, 6)]
        if cnts:
            operand = cnts[0].args[1] if cnts[0].op == "call" else cnts[0].args[0]
            o0 = operand
            while isinstance(o0, vg.S) and o0.op == "meth" and o0.args[1] in ("float", "int", "long", "bool", "to"):
                o0 = o0.args[0]
            sliced = o0.op == "sub" and any(isinstance(c_, vg.S) and c_.op == "slice" and not all(vg.is_none(y) for y in c_.args) for c_ in (o0.args[1].args if o0.args[1].op == "tuple" else [o0.args[1]]))
            # columns excluded from the count must have weight -inf (or be excluded from the draw) as well
            w_full = okm and len(st) == 1 and nf.strip(st[0].args[1], True).op in ("inv", "not")
            excluded_too = False
            if sliced and w_full:
                stores = [x for x in vg.walk(inner) if x.op == "store"]
                excluded_too = len(stores) > 1
            oks = (not sliced) or excluded_too
            whys = ("valid actions are counted over " + ("a column slice of the mask" if sliced else "the whole mask") + "; the draw is over " +
                    ("the same columns" if oks else "ALL columns: for an env whose column 0 is a valid start (no depot) the count is one short, so n = number of nodes forces replacement although n distinct starts exist"))
    ctx.ob("C12.d", "sample_n_random_actions:count-support", oks, fi.loc, whys, construct="sample_n_random_actions:count-support")
    ctx.ob("C12.d", "sample_n_random_actions:masked-weights", okm, fi.loc, whym, construct="sample_n_random_actions:masking")
    # start selection is per instance: neither the indices nor the choice of formula / the replacement flag may come from a
    # reduction over the whole batch (one short instance would otherwise change the starts of all its batch-mates)
    from .. import batchaxis as ba
    from ..model import alpha_key
    for fq_ in ("select_start_nodes", "sample_n_random_actions"):
        f_ = ctx.repo.get_function(OPS, fq_)
        it_ = vg.Interp(ctx.repo, None, inline_policy=lambda f, a: False)
        fr_ = it_.run_function(f_)
        roots_ = [v for c, v in fr_.returns if isinstance(v, vg.S)]
        per = {}
        for r_ in roots_:
            for h in ba.hits(r_):
                per[h.node.id] = h
            # guards of the alternatives and keyword operands are part of the decision
            for n_ in vg.walk(r_):
                if n_.op in ("phi", "ifexp") and isinstance(n_.args[0], vg.S):
                    for h in ba.hits(n_.args[0]):
                        per[h.node.id] = h
        hits_ = [h for h in per.values() if h.kind in ("reduce-all", "row-pick", "flatten")]
        if not hits_:
            ctx.ob("C12.d", f"{fq_}:per-instance", True, f_.loc, "no reduction over the batch axis takes part in choosing the start nodes", construct=f"{fq_}:per-instance")
        for h in hits_:
            site = vg.site_of(h.node)
            fn_, text = ctx.repo.locate(*site) if site else (fq_, vg.show(h.node, 3))
            ctx.ob("C12.d", f"{fq_}:per-instance", False, f"{site[0]}:{site[1]}" if site else f_.loc,
                   f"`{text}` reduces over the whole batch and decides how the start nodes of EVERY instance are drawn: {h.why}. An instance with enough feasible start nodes gets "
                   "randomly re-drawn / repeated starts because a batch-mate has too few", construct=f"{fq_}:batch-global:{alpha_key(text)}")
    return n


def drawn_start_nodes_layout(ctx: Ctx):
    """C12.e a start-node selector that draws k nodes per instance at once (multinomial(mask, k) -> [B, k], topk, ...) must
    hand them back in the layout of the replicated state, (start, instance): the two axes are exchanged (transpose / t / permute /
    rearrange) before the result is flattened.  Flattened directly, row r gets the node drawn for instance r // k."""
    import ast
    n_sites = 0
    for mi in sorted(ctx.repo.modules.values(), key=lambda m: m.relpath):
        if not mi.relpath.startswith("rl4co/"):
            continue
        for fnode in [n for n in ast.walk(mi.tree) if isinstance(n, ast.FunctionDef) and "select_start_node" in n.name]:
            rets_ = []
            for blk in ast.walk(fnode):
                for body in (getattr(blk, "body", None), getattr(blk, "orelse", None)):
                    if not isinstance(body, list):
                        continue
                    for i_, st in enumerate(body):
                        if isinstance(st, ast.Return) and st.value is not None:
                            v_ = st.value
                            # `tmp = <expr>; return tmp`
                            if isinstance(v_, ast.Name) and i_ > 0 and isinstance(body[i_ - 1], ast.Assign) and any(isinstance(t, ast.Name) and t.id == v_.id for t in body[i_ - 1].targets):
                                v_ = body[i_ - 1].value
                            rets_.append((st, v_))
            for r, rv in rets_:
                # method chain of the returned expression, innermost first
                chain, e = [], rv
                while isinstance(e, ast.Call) and isinstance(e.func, ast.Attribute):
                    chain.append((e.func.attr, e))
                    e = e.func.value
                chain.reverse()
                root_is_draw = isinstance(e, ast.Call) and ast.unparse(e.func).split(".")[-1] in ("multinomial", "topk", "randint", "rand") and len(e.args) >= 2
                names = [c for c, _ in chain]
                if not root_is_draw and not any(c in ("multinomial", "topk") for c in names):
                    continue
                flat_i = [i for i, c in enumerate(names) if c in ("view", "reshape", "flatten")]
                if not flat_i:
                    continue
                n_sites += 1
                swapped = any(c in ("transpose", "t", "permute", "T") for c in names[:flat_i[-1]]) or any(isinstance(x, ast.Attribute) and x.attr in ("T", "mT") for x in ast.walk(rv))
                ctx.repo.note(mi)
                ctx.ob("C12.e", f"{fnode.name}:drawn-starts-in-start-major-order", swapped, f"{mi.relpath}:{r.lineno}",
                       f"{ast.unparse(rv)[:90]}: [B, k] draw " + ("transposed before it is flattened: rows run (start, instance)" if swapped else
                       "flattened as it is: rows run (instance, start), but the replicated state runs (start, instance) -- a row gets a start node drawn from another instance's mask"),
                       construct=f"{mi.relpath}:{fnode.name}:flatten-order")
    if n_sites < 1:
        raise AnalysisError("no start-node selector that flattens a [B, k] draw found (AntSystem.select_start_node_fn has one)")


def select_best_whenever_expanded(ctx: Ctx):
    """C12.f best-selection belongs to the expansion, not to the way the first action was chosen: pre_decoder_hook replicates
    the batch whenever `num_starts >= 1` (forced start nodes for multi-start, the same instance k times for multi-sample);
    post_decoder_hook must reduce it again under exactly `num_starts > 0 and select_best`.  A guard on `multistart` skips the
    reduction for multi-sample decoding: k * B rollouts come back where B best ones were asked for."""
    import ast
    cls = ctx.repo.get_class("rl4co/utils/decoding.py", "DecodingStrategy")
    post, pre = cls.methods.get("post_decoder_hook"), cls.methods.get("pre_decoder_hook")
    if post is None or pre is None:
        raise AnalysisError("DecodingStrategy.pre_decoder_hook / post_decoder_hook not found")
    ctx.fn(post)
    guards = [i for i in ast.walk(post.node) if isinstance(i, ast.If) and any(isinstance(c, ast.Call) and isinstance(c.func, ast.Attribute) and c.func.attr == "_select_best" for st in i.body for c in ast.walk(st))]
    if len(guards) != 1:
        raise AnalysisError(f"DecodingStrategy.post_decoder_hook: expected one guarded _select_best call, found {len(guards)}")
    attrs = {x.attr for x in ast.walk(guards[0].test) if isinstance(x, ast.Attribute) and isinstance(x.value, ast.Name) and x.value.id == "self"}
    # the expansion in pre_decoder_hook
    exp = [i for i in ast.walk(pre.node) if isinstance(i, ast.If) and any(isinstance(c, ast.Call) and ast.unparse(c.func).split(".")[-1] == "batchify" for st in i.body for c in ast.walk(st))]
    exp_attrs = set()
    for i in exp:
        exp_attrs |= {x.attr for x in ast.walk(i.test) if isinstance(x, ast.Attribute) and isinstance(x.value, ast.Name) and x.value.id == "self"}
    ok = attrs == {"num_starts", "select_best"} and "num_starts" in exp_attrs
    ctx.ob("C12.f", "DecodingStrategy.post_decoder_hook:select-best-whenever-expanded", ok, post.loc,
           f"_select_best runs under a condition on {sorted(attrs)}; the batch is expanded under a condition on {sorted(exp_attrs)}" +
           ("" if ok else " -- an expansion that this condition does not cover is handed back unreduced"),
           construct="DecodingStrategy.post_decoder_hook:select-best-guard")


def likelihood_of_the_selected_rollout(ctx: Ctx):
    """C12.h best-selection returns "exactly the actions and log-likelihood of that rollout": the log-likelihood is the plain sum
    of the recorded per-step entries of the taken actions (C11.b, shared) -- the entry recorded for a FORCED first move is a
    placeholder row of zeros, which any re-normalisation inside get_log_likelihood turns into -log(n)."""
    from . import C11
    from ..core import Ctx as _Ctx
    import contextlib, io
    sub = _Ctx("C11", ctx.repo, "quick", 0)
    with contextlib.redirect_stdout(io.StringIO()):
        C11.run(sub)
    got = [o for o in sub.obligations if o.rule == "C11.b" and "get_log_likelihood" in o.instance]
    if not got:
        raise AnalysisError("C11.b obligation for get_log_likelihood not produced")
    for o in got:
        o.rule = "C12.h"
        ctx.obligations.append(o)


def normaliser_keeps_the_shape_of_the_instance(ctx: Ctx):
    """C12.g / C15.l `min_max_normalize` (StateAugmentation(normalize=True)) maps the augmented copies back into the unit square
    with ONE scale for both coordinates: every min / max / amin / amax that defines offset and scale reduces over the
    coordinate axis too (no `dim`, or a `dim` that contains -1 / the last axis).  A per-coordinate scale stretches x and y
    differently: the copy is no longer similar to its instance, tour-length ratios change and the best of the k augmented
    rollouts need not be the best for the instance."""
    fi = ctx.repo.get_function("rl4co/data/transforms.py", "min_max_normalize")
    ctx.fn(fi)
    reds, bad = 0, []
    for c in ast.walk(fi.node):
        if isinstance(c, ast.Call) and isinstance(c.func, ast.Attribute) and c.func.attr in ("min", "max", "amin", "amax"):
            reds += 1
            dims = [k.value for k in c.keywords if k.arg == "dim"] + list(c.args[:1])
            if not dims:
                continue
            d = dims[0]
            vals = [e.value if isinstance(e, ast.Constant) else (-e.operand.value if isinstance(e, ast.UnaryOp) and isinstance(e.op, ast.USub) and isinstance(e.operand, ast.Constant) else None)
                    for e in (d.elts if isinstance(d, (ast.Tuple, ast.List)) else [d])]
            if -1 not in vals:
                bad.append(f"{ast.unparse(c)[:50]} (line {c.lineno})")
    if reds < 2:
        raise AnalysisError(f"min_max_normalize: min / max reductions not found ({reds})")
    ctx.ob("C12.g", "min_max_normalize:one-scale-for-both-coordinates", not bad, fi.loc,
           f"{reds} reductions, each includes the coordinate axis: {not bad}" + ("" if not bad else f" -- {bad[0]} keeps the coordinates apart: x and y get different scales"),
           construct="min_max_normalize:per-coordinate-scale")


def start_nodes_used_as_selected(ctx: Ctx):
    """C12.d (callers) the node indices returned by `select_start_nodes` are forced as first actions AS SELECTED: the start
    rule of each environment already confines them to that environment's feasible range (customers 1..N for depot problems,
    pickups for PDP, ...).  Arithmetic on the returned indices at a call site (`% num_starts`, `+ 1`, ...) moves them out of
    that range -- `% N` sends customer N of a depot problem to the depot, which the reset mask closes.  Every call site of
    `.select_start_nodes(...)` / `select_start_nodes_fn(...)` in the package outside the definitions themselves: no arithmetic
    operator between the call and the statement it belongs to."""
    sites = 0
    for mi in ctx.repo.modules.values():
        parents = {}
        for n in ast.walk(mi.tree):
            for c in ast.iter_child_nodes(n):
                parents[id(c)] = n
        for n in ast.walk(mi.tree):
            if not (isinstance(n, ast.Call) and isinstance(n.func, ast.Attribute) and n.func.attr in ("select_start_nodes", "select_start_nodes_fn")):
                continue
            if isinstance(n.func.value, ast.Call) and ast.unparse(n.func.value.func) == "super":
                continue
            # enclosing function
            fn = n
            arith = []
            while id(fn) in parents and not isinstance(fn, (ast.FunctionDef, ast.AsyncFunctionDef)):
                p_ = parents[id(fn)]
                if isinstance(p_, ast.BinOp) and isinstance(p_.op, (ast.Mod, ast.Add, ast.Sub, ast.Mult, ast.FloorDiv, ast.Div)):
                    arith.append(ast.unparse(p_)[:70])
                if isinstance(p_, ast.stmt):
                    fn = p_
                    while id(fn) in parents and not isinstance(fn, (ast.FunctionDef, ast.AsyncFunctionDef)):
                        fn = parents[id(fn)]
                    break
                fn = p_
            fname = fn.name if isinstance(fn, (ast.FunctionDef, ast.AsyncFunctionDef)) else "<module>"
            if fname == "select_start_nodes":
                continue            # an override delegating to the generic helper adjusts its own rule (checked by start_nodes)
            sites += 1
            ctx.ob("C12.d", f"{mi.relpath}:{fname}:start-nodes-used-as-selected", not arith, f"{mi.relpath}:{n.lineno}",
                   "the returned start nodes are forced unchanged" if not arith else
                   f"arithmetic on the returned node indices: {arith[0]} -- the environment's start rule no longer confines them (a modulus sends the last customer of a depot problem to the depot)",
                   construct=f"{fname}:start-nodes:arithmetic")
    if sites < 3:
        raise AnalysisError(f"select_start_nodes call sites lost: {sites} < 3")


def incumbents_copied_row_by_row(ctx: Ctx):
    """C12.i DeepACO keeps, per instance, the best rollout found over the iterations (`final_actions[b]`, `final_reward[b]`).  An
    incumbent is replaced row by row: wherever a per-instance store is written at index v inside a loop over instance ids, the value
    is read from the candidate at the SAME index v (and a masked tensor assignment uses one index expression on both sides).
    `final_actions[index] = best_actions[i]` with i the position in the compacted list of improved ids hands instance `index` the
    rollout of another instance while its reward stays right."""
    import ast
    rel = "rl4co/models/zoo/deepaco/antsystem.py"
    fi = ctx.repo.get_function(rel, "AntSystem._update_results")
    if fi is None:
        raise AnalysisError("AntSystem._update_results not found")
    ctx.fn(fi)
    n = 0
    for st in ast.walk(fi.node):
        if not (isinstance(st, ast.Assign) and len(st.targets) == 1 and isinstance(st.targets[0], ast.Subscript) and isinstance(st.value, ast.Subscript)):
            continue
        t, v = st.targets[0], st.value
        if not (isinstance(t.value, ast.Attribute) and isinstance(t.value.value, ast.Name) and t.value.value.id == "self"):
            continue
        n += 1
        ok = ast.dump(t.slice) == ast.dump(v.slice)
        ctx.ob("C12.i", f"AntSystem._update_results:self.{t.value.attr}:same-row-on-both-sides", ok, f"{rel}:{st.lineno}",
               f"`{ast.unparse(st)[:80]}`: store index `{ast.unparse(t.slice)}`, source index `{ast.unparse(v.slice)}`" +
               ("" if ok else " -- the incumbent of one instance is replaced by the candidate of another row"),
               construct=f"AntSystem._update_results:incumbent-row:{t.value.attr}")
    if n < 2:
        raise AnalysisError(f"AntSystem._update_results: {n} incumbent stores found (2 confirmed by hand: final_actions, final_reward)")


def run(ctx: Ctx):
    helpers(ctx)
    incumbents_copied_row_by_row(ctx)
    n1 = einops_sites(ctx)
    n2 = arange_sites(ctx)
    factor_sites(ctx)
    expansion_sites(ctx)
    drawn_start_nodes_layout(ctx)
    select_best_whenever_expanded(ctx)
    n3 = start_nodes(ctx)
    start_nodes_used_as_selected(ctx)
    normaliser_keeps_the_shape_of_the_instance(ctx)
    likelihood_of_the_selected_rollout(ctx)
    ctx.extra["einops_batch_groups"] = n1
    ctx.extra["arange_sites"] = n2
    ctx.extra["registered_envs_checked"] = n3
    if n1 < 5 or n2 < 5:
        raise AnalysisError(f"layout sites lost: einops groups {n1}, arange sites {n2}")


def run_thorough(ctx: Ctx):
    from ..selftest.corpus import for_prop
    from ..selftest.runner import run_corpus
    run_corpus(ctx, for_prop("C12"))
