"""C12 -- replicated rollouts keep their instance.  Decided clauses:

C12.a  layout invariant: at every flatten / unflatten of a replica axis with the batch axis the
       BATCH INDEX IS THE MINOR FACTOR ("row r belongs to instance r mod B"):
       _batchify_single / _unbatchify_single, the reversed(shape) loops, every einops pattern
       that groups a batch symbol, arange(k).repeat_interleave(B) / arange(B).repeat(k)
C12.b  factor agreement: within one function the same replication factor expands and regroups
       (DecodingStrategy._select_best, POMO/SymNCO shared_step, the eval classes)
C12.c  best-of agreement: the index returned by max over the replica axis gathers actions /
       log-probs / state on that same axis
C12.d  start-index range: select_start_nodes yields indices inside the mask: depot-style envs
       skip index 0 and the number of default starts excludes the depot; PDP restricts to pickups
"""
from __future__ import annotations

import ast
import re

from .. import layout, nf, vg
from ..core import Ctx
from ..envs import generator_class
from ..model import AnalysisError

FLOOR = 40
EXPLANATION = (
    "Static layout analysis of every site that merges/splits a replica axis with the batch axis in rl4co/utils/ops.py, "
    "utils/decoding.py, zoo/pomo, zoo/symnco, tasks/eval.py, zoo/am/decoder.py, data/transforms.py and the env "
    "select_start_nodes overrides (plus every einops pattern of the package that groups a batch symbol): the batch index must be "
    "the minor factor; replication factors agree between expansion and regrouping; argmax indices gather on the replica axis; "
    "start indices stay inside the mask given the env's depot convention. Holds for every B and k at once. Feasibility of "
    "forced starts for instance-dependent masks is a runtime question and is not decided."
)
RULE = "one obligation per layout site / factor pair / gather pair / registered env"
OPS = "rl4co/utils/ops.py"
DEC = "rl4co/utils/decoding.py"
BATCH_SYMS = {"b", "bs", "batch", "B", "batch_size"}
BATCHY = re.compile(r"(td\.shape\[0\]|batch_size|\.size\(0\)|\.shape\[0\]|bs\b)")
REPLICA = re.compile(r"(num_starts|beam_width|num_augment|n_start|n_aug|\bn\b|samples|repeats)")


def role(txt: str) -> str:
    b, r = bool(BATCHY.search(txt)), bool(REPLICA.search(txt))
    if b and not r:
        return "batch"
    if r and not b:
        return "replica"
    return "?"


def helpers(ctx: Ctx):
    fb = ctx.repo.get_function(OPS, "_batchify_single")
    fu = ctx.repo.get_function(OPS, "_unbatchify_single")
    for fi in (fb, fu):
        ctx.fn(fi)
    it = vg.Interp(ctx.repo, None)
    r = it.run_function(fb).ret
    ok, why = False, "not x.expand(repeats, *s).view(s[0] * repeats, *s[1:])"
    v = r
    if isinstance(v, vg.S) and v.op == "meth" and v.args[1] == "view":
        inner = v.args[0]
        while inner.op == "meth" and inner.args[1] == "contiguous":
            inner = inner.args[0]
        if inner.op == "meth" and inner.args[1] == "expand":
            e0 = inner.args[2]
            e_ok = e0.op == "param" and e0.args[0] == "repeats" and len(inner.args) == 4 and inner.args[3].op == "starred"
            p = nf.poly(v.args[2])
            mon = p.monos()
            def is_s0(a):
                return a.op == "sub" and vg.is_const(a.args[1], 0) and a.args[0].op == "attr" and a.args[0].args[1] == "shape"
            ats = [a for a, _ in mon[0][1]] if len(mon) == 1 else []
            v_ok = len(ats) == 2 and any(a.op == "param" and a.args[0] == "repeats" for a in ats) and any(is_s0(a) for a in ats) \
                and len(v.args) == 4 and v.args[3].op == "starred"
            ok = e_ok and v_ok
            why = f"new axis of size `repeats` is inserted in FRONT of the batch axis ({e_ok}) and merged with it by view(s[0]*repeats, ...) ({v_ok}): layout (replica, batch), batch minor"
    ctx.ob("C12.a", "_batchify_single", ok, fb.loc, why, construct="_batchify_single:layout")
    it = vg.Interp(ctx.repo, None)
    r = it.run_function(fu).ret
    ok, why = False, "not x.view(repeats, s[0] // repeats, *s[1:]).permute(1, 0, ...)"
    if isinstance(r, vg.S) and r.op == "meth" and r.args[1] == "permute":
        v = r.args[0]
        p_ok = vg.is_const(r.args[2], 1) and vg.is_const(r.args[3], 0)
        if v.op == "meth" and v.args[1] == "view":
            a0, a1 = v.args[2], v.args[3]
            v_ok = a0.op == "param" and a0.args[0] == "repeats" and a1.op == "//" and a1.args[1] is a0
            ok = p_ok and v_ok
            why = f"leading axis split as (repeats, B) ({v_ok}) and transposed to (B, repeats) ({p_ok}): inverse of the (replica, batch) layout"
    ctx.ob("C12.a", "_unbatchify_single", ok, fu.loc, why, construct="_unbatchify_single:layout")
    for nm in ("batchify", "unbatchify"):
        fi = ctx.repo.get_function(OPS, nm)
        ctx.fn(fi)
        loops = [n for n in ast.walk(fi.node) if isinstance(n, ast.For)]
        ok = len(loops) == 1 and ast.unparse(loops[0].iter).replace(" ", "") == "reversed(shape)"
        single = "_" + nm + "_single"
        ok = ok and any(isinstance(n, ast.Call) and getattr(n.func, "id", "") == single for n in ast.walk(loops[0])) if loops else False
        ctx.ob("C12.a", f"{nm}:loop", ok, fi.loc, f"for s in reversed(shape): x = {single}(x, s)", construct=f"{nm}:loop-order")
    fi = ctx.repo.get_function(OPS, "unbatchify_and_gather")
    ctx.fn(fi)
    src = ast.unparse(fi.node)
    ok = "x = unbatchify(x, n)" in src and "gather_by_index(x, idx, dim=idx.dim())" in src
    ctx.ob("C12.c", "unbatchify_and_gather", ok, fi.loc, "gathers on axis idx.dim() = the replica axis created by unbatchify", construct="unbatchify_and_gather:axis")


def einops_sites(ctx: Ctx):
    n = 0
    for mi in ctx.repo.modules.values():
        for node in ast.walk(mi.tree):
            if not (isinstance(node, ast.Call) and isinstance(node.func, ast.Name) and node.func.id in ("rearrange", "repeat", "reduce")):
                continue
            pats = [a.value for a in node.args[1:2] if isinstance(a, ast.Constant) and isinstance(a.value, str)]
            if not pats:
                continue
            try:
                l, r = layout.parse_einops(pats[0])
            except layout.PatternError:
                continue
            for side in (l, r):
                for g in layout.groups(side):
                    bsyms = [s for s in g if s in BATCH_SYMS]
                    if not bsyms:
                        continue
                    n += 1
                    ctx.repo.note(mi)
                    fn, _ = ctx.repo.locate(mi.relpath, node.lineno, node.col_offset, getattr(node, "end_lineno", 0), getattr(node, "end_col_offset", 0))
                    ok = g[-1] in BATCH_SYMS
                    ctx.ob("C12.a", f"{fn}:einops:{pats[0]}", ok, f"{mi.relpath}:{node.lineno}",
                           f'group ({" ".join(g)}) in "{pats[0]}": ' + ("batch index is the minor factor" if ok else
                           f"the batch symbol `{bsyms[0]}` is the MAJOR factor, but batchify / StateAugmentation lay replicas out as (replica, batch): the groups mix different instances"),
                           construct=f"{fn}:einops:{pats[0]}")
                    ctx.sample({"site": f"{mi.relpath}:{node.lineno}", "pattern": pats[0], "group": list(g), "batch_minor": ok})
    return n


def arange_sites(ctx: Ctx):
    files = [OPS, DEC, "rl4co/envs/routing/pdp/env.py", "rl4co/envs/routing/mtvrp/env.py", "rl4co/envs/graph/flp/env.py", "rl4co/envs/graph/mcp/env.py"]
    n = 0
    for rel in files:
        mi = ctx.repo.module_by_path(rel)
        for node in ast.walk(mi.tree):
            if not (isinstance(node, ast.Call) and isinstance(node.func, ast.Attribute) and node.func.attr in ("repeat", "repeat_interleave")):
                continue
            base = node.func.value
            while isinstance(base, ast.Call) and isinstance(base.func, ast.Attribute) and base.func.attr in ("to", "long", "int"):
                base = base.func.value
            if not (isinstance(base, ast.Call) and ast.unparse(base.func) == "torch.arange"):
                continue
            a_args = [a for a in base.args]
            a_txt = ast.unparse(a_args[-1] if len(a_args) <= 2 else a_args[1]) if a_args else ""
            if len(a_args) == 2 and isinstance(a_args[0], ast.Constant) and a_args[0].value == 0:
                a_txt = ast.unparse(a_args[1])
            r_txt = ast.unparse(node.args[0]) if node.args else ""
            ra, rr = role(a_txt), role(r_txt)
            fn, _ = ctx.repo.locate(rel, node.lineno, node.col_offset, getattr(node, "end_lineno", 0), getattr(node, "end_col_offset", 0))
            if "?" in (ra, rr):
                continue
            n += 1
            good = (ra == "replica" and rr == "batch" and node.func.attr == "repeat_interleave") or (ra == "batch" and rr == "replica" and node.func.attr == "repeat")
            ctx.ob("C12.a", f"{fn}:arange({a_txt}).{node.func.attr}({r_txt})", good, f"{rel}:{node.lineno}",
                   (f"arange over the {ra} count, {node.func.attr} by the {rr} count: row r gets " + ("replica index r // B" if ra == "replica" else "batch index r % B") if good else
                    f"arange over the {ra} count with {node.func.attr}({rr} count) yields a (batch, replica) layout, but expansion uses (replica, batch)"),
                   construct=f"{fn}:arange:{node.func.attr}")
    return n


def norm_factor(txt: str):
    """product normal form of a replication factor expression: tuple -> product of elements"""
    t = ast.parse(txt, mode="eval").body
    elems = t.elts if isinstance(t, (ast.Tuple, ast.List)) else [t]
    out = []
    for e in elems:
        if isinstance(e, ast.BinOp) and isinstance(e.op, ast.Mult):
            out += [ast.unparse(e.left), ast.unparse(e.right)]
        else:
            out.append(ast.unparse(e))
    return tuple(sorted(out))


def factor_sites(ctx: Ctx):
    specs = [
        (DEC, "DecodingStrategy._select_best", ("unbatchify", "unbatchify_and_gather"), False),
        ("rl4co/models/zoo/pomo/model.py", "POMO.shared_step", ("unbatchify",), True),
        ("rl4co/models/zoo/symnco/model.py", "SymNCO.shared_step", ("unbatchify",), True),
        ("rl4co/tasks/eval.py", "AugmentationEval._inner", ("batchify", "unbatchify"), False),
        ("rl4co/tasks/eval.py", "GreedyMultiStartEval._inner", ("batchify", "unbatchify"), False),
        ("rl4co/tasks/eval.py", "GreedyMultiStartAugmentEval._inner", ("batchify", "unbatchify"), False),
    ]
    for rel, fn, names, exact in specs:
        fi = ctx.repo.get_function(rel, fn)
        ctx.fn(fi)
        facs = []
        for node in ast.walk(fi.node):
            if isinstance(node, ast.Call) and isinstance(node.func, ast.Name) and node.func.id in names and node.args:
                f = node.args[-1]
                facs.append((node.func.id, ast.unparse(f), node.lineno))
        if len(facs) < 2:
            raise AnalysisError(f"{fn}: expected several (un)batchify calls, found {len(facs)}")
        if exact:
            ok = len({t for _, t, _ in facs}) == 1
        else:
            ok = len({norm_factor(t) for _, t, _ in facs}) == 1
        ctx.ob("C12.b", f"{fn}:factors", ok, fi.loc, f"replication factors used: {[(a, t) for a, t, _ in facs]}" + ("" if ok else " -- expansion and regrouping use different factors"),
               construct=f"{fn}:factor-agreement")
    # best-of agreement
    for rel, fn in (("rl4co/tasks/eval.py", "AugmentationEval._inner"), ("rl4co/tasks/eval.py", "GreedyMultiStartEval._inner"), ("rl4co/tasks/eval.py", "GreedyMultiStartAugmentEval._inner")):
        fi = ctx.repo.get_function(rel, fn)
        src = ast.unparse(fi.node)
        m1 = re.search(r"rewards, max_idxs = rewards\.max\(dim=(-?\d+)\)", src)
        m2 = re.search(r"actions = gather_by_index\(actions, max_idxs, dim=(-?\d+)\)", src)
        ok = bool(m1 and m2 and m1.group(1) == m2.group(1) == "1")
        ctx.ob("C12.c", f"{fn}:best-of", ok, fi.loc, f"max over dim {m1.group(1) if m1 else '?'} / gather on dim {m2.group(1) if m2 else '?'} of the [B, k, ...] regrouping", construct=f"{fn}:best-of-axis")
    fi = ctx.repo.get_function(DEC, "DecodingStrategy._select_best")
    src = ast.unparse(fi.node)
    ok = "_, max_idxs = unbatchify(rewards, self.num_starts).max(dim=-1)" in src and all(f"{x} = unbatchify_and_gather({x}, max_idxs, self.num_starts)" in src for x in ("actions", "logprobs", "td"))
    ctx.ob("C12.c", "DecodingStrategy._select_best:best-of", ok, fi.loc, "argmax over the replica axis of [B, k] rewards; actions, logprobs and td gathered with that same index", construct="DecodingStrategy._select_best:best-of")
    for rel, fn in (("rl4co/models/zoo/pomo/model.py", "POMO.shared_step"),):
        fi = ctx.repo.get_function(rel, fn)
        src = ast.unparse(fi.node)
        ok = src.count("max_reward, max_idxs = reward.max(dim=-1)") >= 1 and "gather_by_index(actions, max_idxs, dim=max_idxs.dim())" in src
        ctx.ob("C12.c", f"{fn}:best-of", ok, fi.loc, "max over the last (starts) axis of [B, aug, starts]; actions gathered on axis max_idxs.dim() (the starts axis)", construct=f"{fn}:best-of-axis")


def start_nodes(ctx: Ctx):
    """C12.d on the generic helpers in utils/ops.py, cross-checked against the env registry."""
    import ast as _ast
    gs = ctx.repo.get_function(OPS, "get_num_starts")
    ss = ctx.repo.get_function(OPS, "select_start_nodes")
    ctx.fn(gs)
    ctx.fn(ss)

    def name_lists(fi, var_txt):
        out = []
        for n in _ast.walk(fi.node):
            if isinstance(n, _ast.Compare) and _ast.unparse(n.left) == var_txt:
                c = n.comparators[0]
                if isinstance(n.ops[0], _ast.In) and isinstance(c, (_ast.List, _ast.Tuple)):
                    out.append([e.value for e in c.elts if isinstance(e, _ast.Constant)])
                elif isinstance(n.ops[0], _ast.Eq) and isinstance(c, _ast.Constant):
                    out.append([c.value])
        return out
    gl = name_lists(gs, "env_name")
    sl = name_lists(ss, "env.name")
    minus_one = set(next((l for l in gl if len(l) > 1), []))
    pdp_special = any(l == ["pdp"] for l in gl)
    no_depot = set(next((l for l in sl if "tsp" in l), []))
    unsupported = set(next((l for l in sl if "jssp" in l), []))
    if not minus_one or not no_depot:
        raise AnalysisError("get_num_starts / select_start_nodes: env-name tables not found")
    # registry: env name -> class
    reg_mi = ctx.repo.module("rl4co.envs")
    reg = reg_mi.assigns.get("ENV_REGISTRY")
    if reg is None or not isinstance(reg, _ast.Dict):
        raise AnalysisError("ENV_REGISTRY not found")
    n = 0
    for k, v in zip(reg.keys, reg.values):
        name = k.value
        r = ctx.repo.resolve_global(reg_mi, v.id) if isinstance(v, _ast.Name) else None
        if r is None or r[0] != "class":
            continue
        cls = r[1]
        own_sel = ctx.repo.resolve_method(cls, "select_start_nodes")
        own_num = ctx.repo.resolve_method(cls, "get_num_starts")
        overrides = (own_sel is not None and own_sel.cls.name != "RL4COEnvBase") or (own_num is not None and own_num.cls.name != "RL4COEnvBase")
        if overrides or name in unsupported:
            continue
        n += 1
        if name in no_depot:
            ok, why = name not in minus_one, "no depot: indices 0..k-1 of a mask of width k"
        else:
            # depot-style branch: selected = arange(k) % num_loc + 1 ; in range iff k <= width - 1 or the modulo wraps (generator.num_loc exists)
            g = generator_class(ctx.repo, cls)
            has_num_loc = False
            if g is not None:
                for c in ctx.repo.mro(g):
                    if isinstance(c, str):
                        continue
                    for m in c.methods.values():
                        for a in _ast.walk(m.node):
                            if isinstance(a, _ast.Attribute) and isinstance(a.value, _ast.Name) and a.value.id == "self" and a.attr == "num_loc" and isinstance(a.ctx, _ast.Store):
                                has_num_loc = True
            counted = name in minus_one or (name == "pdp" and pdp_special)
            ok = counted or has_num_loc
            why = (f"index 0 is skipped (+1); default number of starts excludes it: {counted}; generator.num_loc bounds the index by modulo: {has_num_loc}" +
                   ("" if ok else f" -- with the default num_starts = mask width the selected indices run up to the mask width itself (out of range) for env '{name}'"))
        ctx.ob("C12.d", f"start-range:{name}", ok, ss.loc, why, construct=f"select_start_nodes:range:{name}")
    # the formula itself
    src = _ast.unparse(ss.node)
    ok = src.count("torch.arange(num_starts, device=td.device).repeat_interleave(td.shape[0]) % num_loc") == 2 and "% num_loc + 1" in src
    ctx.ob("C12.d", "select_start_nodes:formula", ok, ss.loc, "replica index modulo num_loc (+1 for depot-style envs)", construct="select_start_nodes:formula")
    # PDP: pickups only
    fi = ctx.repo.get_function("rl4co/envs/routing/pdp/env.py", "PDPEnv.select_start_nodes")
    ctx.fn(fi)
    src = _ast.unparse(fi.node)
    halves = [n for n in _ast.walk(fi.node) if isinstance(n, _ast.Assign) and isinstance(n.value, _ast.BinOp) and isinstance(n.value.op, _ast.FloorDiv)
              and isinstance(n.value.right, _ast.Constant) and n.value.right.value == 2 and "- 1" in _ast.unparse(n.value.left)]
    var = _ast.unparse(halves[0].targets[0]) if halves else "?"
    ok = bool(halves) and f"% {var} + 1" in src
    ctx.ob("C12.d", "PDPEnv.select_start_nodes:pickups", ok, fi.loc, "start index = replica % (num_loc // 2) + 1: pickups only", construct="PDPEnv.select_start_nodes:range")
    # sampled starts: with replacement only when fewer than n valid actions exist
    fi = ctx.repo.get_function(OPS, "sample_n_random_actions")
    ctx.fn(fi)
    ok, why = False, "replacement test not found"
    for node in _ast.walk(fi.node):
        if isinstance(node, _ast.If) and isinstance(node.test, _ast.Compare) and any(isinstance(b, _ast.Assign) and _ast.unparse(b) == "replace = True" for b in node.body):
            t = node.test
            l, op, r_ = _ast.unparse(t.left), t.ops[0], _ast.unparse(t.comparators[0])
            strict_lt = (isinstance(op, _ast.Lt) and "valid" in l and r_ == "n") or (isinstance(op, _ast.Gt) and "valid" in r_ and l == "n")
            ok = strict_lt
            why = f"replace = True iff `{_ast.unparse(t)}`" + ("" if ok else ": must be strictly fewer valid actions than requested (with exactly n valid actions the n starts have to be distinct)")
    ctx.ob("C12.d", "sample_n_random_actions:replacement-only-if-needed", ok, fi.loc, why, construct="sample_n_random_actions:replacement")
    return n


def run(ctx: Ctx):
    helpers(ctx)
    n1 = einops_sites(ctx)
    n2 = arange_sites(ctx)
    factor_sites(ctx)
    n3 = start_nodes(ctx)
    ctx.extra["einops_batch_groups"] = n1
    ctx.extra["arange_sites"] = n2
    ctx.extra["registered_envs_checked"] = n3
    if n1 < 5 or n2 < 5:
        raise AnalysisError(f"layout sites lost: einops groups {n1}, arange sites {n2}")


def run_thorough(ctx: Ctx):
    from ..selftest.corpus import for_prop
    from ..selftest.runner import run_corpus
    run_corpus(ctx, for_prop("C12"))
