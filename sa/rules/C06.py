"""C06 -- the built-in solution checker agrees with the ground truth.  Decided clauses:

C06.a  coverage: every reference constraint of the env's row is asserted (as a top-level
       conjunct of an `assert`, over the whole batch) with the operands on the right sides
C06.b  direction and tolerance: each assert is the non-strict feasible side (or strict where
       the definition is strict) and any tolerance constant sits on the lenient side, bounded
C06.c  mask => checker: for constraints implemented by both siblings the mask is at least as
       strict as the checker, and both depend on the same instance data
C06.d  gate: RL4COEnvBase.get_reward runs the checker exactly under `self.check_solution`,
       before `_get_reward`
"""
from __future__ import annotations

from fractions import Fraction

from .. import nf, vg
from ..core import Ctx
from ..envs import EnvA, Lit, show_leaf, strictness, const_term, sided_atoms
from ..model import AnalysisError
from ..tables import routing as T
from .C01 import match_all, mask_root, describe

FLOOR = 138
EXPLANATION = (
    "Static analysis of the 14 check_solution_validity implementations (resolved through inheritance, incl. nested helper "
    "closures and loops): every assert condition is decomposed into literals in admit normal form and compared with the "
    "reference row of the problem definition (coverage, sides, strictness, tolerance on the lenient side); sibling "
    "cross-check against the env's own mask literals; the check_solution gate in RL4COEnvBase.get_reward. Decides these "
    "structural clauses, not that every corrupted solution is rejected for every instance."
)
RULE = "one obligation per (env class, reference checker literal) for coverage and for boundary, per sibling pair, plus the gate"


def _open_route_waiver(d):
    """`torch.all(A | (open_route & (node == 0)))` -> (A, waiver) when the second disjunct is false for closed routes and for
    customers (Kleene), else None.  An open route ends at its last customer: what the checker would ask of the never-driven
    way back to the depot is waived, for open routes at the depot only."""
    x = nf.strip(d, True)
    while (nf._fn(x) == "torch.all" and len(x.args) == 2) or (x.op == "meth" and x.args[1] == "all" and len(x.args) == 2):
        x = nf.strip(x.args[1] if x.op == "call" else x.args[0], True)
    if x.op != "|" or len(x.args) != 2:
        return None
    for a_, w_ in ((x.args[0], x.args[1]), (x.args[1], x.args[0])):
        if "open_route" not in vg.cells_of(w_):
            continue

        def assume(open_v, depot_v):
            def f(n_):
                n0 = nf.strip(n_, True)
                while n0.op == "meth" and n0.args[1] in ("squeeze", "reshape", "view", "bool", "flatten"):
                    n0 = nf.strip(n0.args[0], True)
                if n0.op == "cell0" and n0.args[1] == "open_route":
                    return open_v
                r = nf._cmp_raw(n0)
                if r is not None and r[1] in ("==", "!=") and (vg.is_const(r[2], 0) or vg.is_const(r[0], 0)) and "open_route" not in vg.cells_of(n0):
                    return depot_v if r[1] == "==" else (None if depot_v is None else not depot_v)
                return None
            return f
        if nf.kleene(w_, assume(True, True)) is True and nf.kleene(w_, assume(False, None)) is False and nf.kleene(w_, assume(None, False)) is False:
            return a_, w_
    return None


def assert_leaves(sl, waived=None):
    leaves = []
    for e in sl.events("assert"):
        d = e.data
        w = _open_route_waiver(d) if isinstance(d, vg.S) else None
        if w is not None:
            d = w[0]
            if waived is not None:
                waived.append((e, w[0], w[1]))
        leaves.extend(nf.boolwalk(d, T.BOOL_CELLS))
    return leaves


def dup_rule(ctx: Ctx, cname: str, sl):
    """C06.i 'every customer at most once' for tours with optional customers: over the ascending sort S of the actions,
    all((S[1:] == 0) | (S[1:] > S[:-1])) -- repeated entries are allowed only for the depot index 0."""
    def sort_of(x):
        x = nf.strip(x)
        if x.op == "sub" and x.args[1].op == "tuple":
            comps = x.args[1].args
            last = comps[-1] if comps else None
            base = nf.strip(x.args[0])
            if base.op == "sub" and vg.is_const(base.args[1], 0) and nf.strip(base.args[0]).op == "meth" and nf.strip(base.args[0]).args[1] == "sort":
                srt = nf.strip(base.args[0])
                desc = [k.args[1] for k in srt.args[2:] if isinstance(k, vg.S) and k.op == "kw" and k.args[0] == "descending"]
                asc = not desc or vg.is_const(desc[0], False)
                on_actions = "actions" in vg.params_of(srt.args[0])
                if last is not None and last.op == "slice" and asc and on_actions and all(c_.op in ("slice", "ellipsis") and (c_.op == "ellipsis" or all(vg.is_none(y) for y in c_.args)) for c_ in comps[:-1]):
                    lo, hi, st = last.args
                    if vg.is_const(lo, 1) and vg.is_none(hi) and vg.is_none(st):
                        return "tail", srt
                    if vg.is_none(lo) and vg.is_const(hi, -1) and vg.is_none(st):
                        return "head", srt
        return None, None
    ok, why = False, "no assert of the form all((S[1:] == 0) | (S[1:] > S[:-1])) over the sorted actions"
    for e in sl.events("assert"):
        c = e.data
        if not (c.op == "meth" and c.args[1] == "all" and len(c.args) == 2 and nf.strip(c.args[0]).op in ("|", "or")):
            continue
        alts = list(nf.strip(c.args[0]).args)
        if len(alts) != 2:
            continue
        zero = [a for a in alts if a.op == "==" and any(vg.is_const(x, 0) for x in a.args)]
        incr = [a for a in alts if nf._cmp_raw(a) is not None and nf._cmp_raw(a)[1] in (">", "<")]
        if len(zero) != 1 or len(incr) != 1:
            continue
        zside = [x for x in zero[0].args if not vg.is_const(x, 0)]
        kz, sz = sort_of(zside[0]) if zside else (None, None)
        lhs, op, rhs = nf._cmp_raw(incr[0])
        if op == "<":
            lhs, rhs = rhs, lhs
        kl, s1 = sort_of(lhs)
        kr, s2 = sort_of(rhs)
        ok = kz == "tail" and kl == "tail" and kr == "head" and s1 is s2 and sz is s1 and not e.conds
        why = f"repeats allowed only for the depot: zero alternative on S[1:]: {kz == 'tail'}; strict increase S[1:] > S[:-1] of one ascending sort of the actions: {kl == 'tail' and kr == 'head' and s1 is s2}"
        if ok:
            break
    ctx.ob("C06.i", f"{cname}.checker:at-most-once", ok, sl.where, why, construct=f"{cname}.check_solution_validity:at-most-once")


def run(ctx: Ctx):
    for cname, (path, family) in T.CHECK_ENVS.items():
        env = EnvA(ctx.repo, path, cname)
        if not env.own("check_solution_validity"):
            raise AnalysisError(f"{cname}: check_solution_validity not implemented in the env hierarchy")
        sl = env.slot("check_solution_validity")
        ctx.fn(sl.fi)
        for f in sl.it.call_frames:
            if f.func is not None:
                ctx.fn(f.func)
        probs = sl.problems()
        if probs:
            raise AnalysisError(f"{cname}.check_solution_validity: unhandled constructs {probs[:3]}")
        waived = []
        leaves = assert_leaves(sl, waived)
        if not leaves:
            raise AnalysisError(f"{cname}.check_solution_validity: no assert found")
        if cname == "MTVRPEnv":
            # C06.u: the deadline of the node driven to is not asked of the way back of an OPEN route (F52); nothing else is waived
            dl = [w_ for w_ in waived if "time_windows" in vg.cells_of(w_[1])]
            other = [w_ for w_ in waived if "time_windows" not in vg.cells_of(w_[1])]
            ctx.ob("C06.u", "MTVRPEnv.checker:depot-deadline-waived-for-open-routes", len(dl) == 1 and not other, sl.where,
                   f"asserts of the form A | (open_route & node == 0): {len(waived)}; the waived condition is the deadline at the node driven to: {len(dl) == 1}" +
                   ("" if (len(dl) == 1 and not other) else " -- an open route ends at its last customer (the mask and the distance-limit part of this checker drop the way back); "
                    "without the waiver a complete, mask-confined open-route episode is rejected when the never-driven return would arrive after the depot closes"),
                   construct="MTVRPEnv.check_solution_validity:open-route-deadline-waiver")
        if cname in ("OPEnv", "PCTSPEnv", "SPCTSPEnv"):
            dup_rule(ctx, cname, sl)
        if cname == "MTVRPEnv":
            # C06.h: the checker's clock advances by travel TIME (distance / speed); route lengths are distances
            from .. import units
            units.obligations(ctx, "C06.h", f"{cname}.checker", sl.it, sl.fr, sl.where, 12)
        lits = T.CHECK[cname]
        m = match_all(leaves, lits, allow_reduced=True)
        for lit in lits:
            leaf, elsewhere, rev, cands = m[lit.name]
            inst = f"{cname}.checker:{lit.name}"
            if leaf is None:
                extra = ""
                if elsewhere:
                    extra = " (only found non-conjunctively / with other polarity: " + "; ".join(show_leaf(x) for x in elsewhere[:2]) + ")"
                if rev:
                    extra += " (found with REVERSED sides: " + "; ".join(show_leaf(x) for x in rev[:2]) + ")"
                near = nearest(leaves, lit)
                ctx.ob("C06.a", inst, False, sl.where,
                       f"checker does not assert reference constraint '{lit.name}' [{describe(lit)}"
                       + (f", action-dependent sides big={sorted(lit.params_big)} small={sorted(lit.params_small)}" if lit.params_big or lit.params_small else "")
                       + f"]{extra}{near}. {lit.why}",
                       construct=f"{sl.fi.qualname}:{lit.name}:missing")
                continue
            ctx.ob("C06.a", inst, True, sl.where, show_leaf(leaf))
            ctx.sample({"env": cname, "checker_literal": lit.name, "code": show_leaf(leaf)})
            if lit.kind == "cmp" and leaf.cmp() is not None:
                # term polarity (same rule as C01.q / C05.d): every quantity pushes the accept polynomial in the reference direction
                pol = nf.polarity(leaf.cmp()[0].to_sym())
                exp = lit.expected_signs()
                wrong = {k: sorted(v) for k, v in pol.items() if k in exp and not ((v - {0}) <= exp[k])}
                # an instance quantity the reference constraint does not contain shifts what the checker accepts (either way is wrong)
                foreign = {k: sorted(v) for k, v in pol.items() if k not in exp and (v - {0})}
                exp = dict(exp)
                for k, v in foreign.items():
                    wrong[k] = v
                    exp[k] = set()
                ctx.ob("C06.k", inst + ":term-signs", not wrong, sl.where,
                       f"{show_leaf(leaf)}: " + ("every term enters with the reference sign" if not wrong else
                                                 "; ".join((f"`{k}` enters with sign(s) {v}, the constraint needs {sorted(exp[k])}" if exp[k] else f"`{k}` is not part of the constraint but enters its inequality with sign(s) {v}") for k, v in wrong.items())),
                       construct=f"{sl.fi.qualname}:{lit.name}:term-sign:" + ",".join(sorted(wrong)))
            if lit.kind == "cmp" and lit.strict is not None:
                bad = None
                for c in cands:
                    s = strictness(c)
                    ct = const_term(c)
                    if s != lit.strict:
                        bad = (c, "strict comparison where the definition admits equality: rejects boundary-feasible solutions" if s else
                               "non-strict comparison where the definition is strict")
                        break
                    ref = Fraction(lit.const)
                    if ct is not None and not (ref <= ct <= ref + Fraction(repr(T.TOL))):
                        side = "strict side: rejects boundary-feasible (mask-generated) solutions" if ct < ref else "lenient side beyond the allowed tolerance: waves violations through"
                        bad = (c, f"constant term {float(ct)} vs reference {lit.const} -- tolerance on the {side}")
                        break
                ctx.ob("C06.b", inst, bad is None, sl.where,
                       (f"{show_leaf(bad[0])}: {bad[1]}" if bad else f"{show_leaf(leaf)} matches {describe(lit)}"),
                       construct=f"{sl.fi.qualname}:{lit.name}:boundary")
        # ---- C06.c siblings
        for mname, cname_lit in T.SIBLINGS.get(cname, []):
            msl, root = mask_root(env, family)
            mleaves = nf.boolwalk(root, T.BOOL_CELLS)
            mm = match_all(mleaves, T.MASK[cname])
            mleaf = mm[mname][0]
            cleaf = m[cname_lit][0]
            inst = f"{cname}.mask:{mname}=>checker:{cname_lit}"
            if mleaf is None or cleaf is None:
                ctx.note(f"{inst}: sibling literal missing (reported by C01.b / C06.a)")
                continue
            ms, cs = strictness(mleaf), strictness(cleaf)
            mp, _ = mleaf.cmp()
            cp, _ = cleaf.cmp()
            ok = not (cs and not ms)
            why = "" if ok else "checker strict where the mask admits equality: mask-generated solutions are rejected"
            mc, cc = mp.const_term(), cp.const_term()
            if ok and cc < mc:
                ok, why = False, f"checker threshold ({float(cc)}) stricter than the mask's ({float(mc)})"
            mi = (sided_atoms(mp)[0] | sided_atoms(mp)[1]) & T.INSTANCE_CELLS
            ci = (sided_atoms(cp)[0] | sided_atoms(cp)[1]) & T.INSTANCE_CELLS
            miss = mi - ci
            if ok and miss:
                ok, why = False, f"mask constraint depends on instance data {sorted(miss)} that the checker's sibling constraint never reads"
            ctx.ob("C06.c", inst, ok, sl.where, why or f"mask {show_leaf(mleaf)}  =>  checker {show_leaf(cleaf)}",
                   construct=f"{sl.fi.qualname}:{cname_lit}:sibling:{mname}" + (":" + ",".join(sorted(miss)) if miss else ""))
    accumulators(ctx)
    accumulator_signs(ctx)
    checker_clock(ctx)
    padding_is_depot(ctx)
    pctsp_all_visited_count(ctx)
    svrp_every_route_checked(ctx)
    single_tour(ctx)
    sdvrp_delivery_law(ctx)
    per_row_asserts(ctx)
    explained_asserts(ctx)
    gate(ctx)
    state_the_checker_agrees_with(ctx)


def per_row_asserts(ctx: Ctx):
    """C06.f: every assert judges each instance on its own data: no row pick and no
    rank-mismatched broadcast ([B] against [B, 1]) inside an assert condition (shared engine
    with C04)."""
    from .. import batchaxis as ba
    from .C04 import strip_top_all, locate
    from ..envs import generator_slot
    for cname, (path, family) in T.CHECK_ENVS.items():
        env = EnvA(ctx.repo, path, cname)
        sl = env.slot("check_solution_validity")
        ranks = ba.RankFacts()
        rs = env.slot("_reset")
        if rs is not None and rs.td is not None:
            ranks.learn_from_reset(rs.td)
            g, gsl = generator_slot(ctx.repo, env.cls)
            if gsl is not None and gsl.td is not None:
                gr = ba.RankFacts()
                gr.learn_from_reset(gsl.td)
                for k, v in rs.td.cells.items():
                    if k in ranks.cell_rank:
                        continue
                    r_in = gr.rank(v)
                    if r_in is not None:
                        ranks.cell_rank[k] = r_in
                        if gr.unit_last(v):
                            ranks.cell_unit_last.add(k)
        ranks.learn_loop_invariants()
        from .C04 import uniform_keys
        uni = uniform_keys(env)
        bad = []
        n_parts = 0
        for e in sl.events("assert"):
            for part in strip_top_all(e.data):
                n_parts += 1
                for h in ba.hits(part, ranks):
                    if h.kind == "rank-broadcast":
                        # harmless when one operand is row-uniform (e.g. the normalised capacity 1.0): the [B, B] result repeats each row's own value
                        n0 = h.node
                        ops_ = [x for x in (n0.args if n0.op in ba.ELEMENTWISE else (n0.args[1:] if n0.op == "call" else [n0.args[0]] + list(n0.args[2:]))) if isinstance(x, vg.S) and not ba.is_scalarish(x)]
                        if any(vg.cells_of(x) and vg.cells_of(x) <= uni and not vg.params_of(x) for x in ops_):
                            ctx.note(f"{cname}.checker: rank-mismatched comparison with a row-uniform operand ({vg.show(n0, 2)[:80]}): no cross-row effect")
                            continue
                    if h.kind in ("row-pick", "rank-broadcast"):
                        bad.append(h)
        if bad:
            seen = set()
            for h in bad:
                if h.node.id in seen:
                    continue
                seen.add(h.node.id)
                fn, text, where = locate(ctx, h)
                ctx.ob("C06.f", f"{cname}.checker:{h.kind}", False, where or sl.where,
                       f"{h.kind} `{text}`: {h.why} -- the verdict for one instance depends on other rows of the batch",
                       construct=f"{fn}:{h.kind}:{text}")
        else:
            ctx.ob("C06.f", f"{cname}.checker:per-row", True, sl.where, f"{n_parts} assert conditions judge rows independently")


def explained_asserts(ctx: Ctx):
    """C06.g: a checker asserts nothing beyond the problem definition: every conjunctive assert
    literal instantiates a constraint of the env's reference row or an instance-data sanity
    condition (non-negativity, ordered windows, depot reachable in time) with the right sides and
    strictness.  A reversed or invented assertion rejects feasible solutions."""
    from ..envs import leaf_matches, strictness as _strict
    for cname, (path, family) in T.CHECK_ENVS.items():
        env = EnvA(ctx.repo, path, cname)
        sl = env.slot("check_solution_validity")
        leaves = assert_leaves(sl)
        row = T.CHECK[cname]
        bad = []
        n = 0
        for l in leaves:
            if not l.conj or l.sign == 0:
                continue
            n += 1
            if any(leaf_matches(l, lit)[0] for lit in row):
                continue
            ok = False
            c = l.cmp()
            if c is not None:
                pos_c, neg_c, _, _ = sided_atoms(c[0])
                for lit in T.SANITY:
                    m, _ = leaf_matches(l, lit)
                    extra = getattr(lit, "extra_small", set())
                    exact = pos_c == lit.big and lit.small <= neg_c <= (lit.small | extra)
                    # (strictness of a sanity condition is not judged: a weaker sanity test rejects nothing feasible)
                    if m and exact and not vg.params_of(l.node) and c[0].const_term() == 0:
                        ok = True
                        break
            if not ok:
                bad.append(l)
        if bad:
            for l in bad[:3]:
                ctx.ob("C06.g", f"{cname}.checker:unexplained:{show_leaf(l)[:50]}", False, sl.where,
                       f"the checker asserts `{show_leaf(l)}`, which is neither a constraint of the problem's reference row nor one of the instance sanity conditions "
                       f"(with these operands on these sides / this strictness): feasible solutions of valid instances are rejected",
                       construct=f"{sl.fi.qualname}:unexplained-assert:{','.join(sorted(vg.cells_of(l.node)))}")
        else:
            ctx.ob("C06.g", f"{cname}.checker:asserts-explained", True, sl.where, f"{n} conjunctive assert literals, all explained by the reference row or the sanity table")


CHECK_ACCUM_ENVS = ("CVRPEnv", "SDVRPEnv", "CVRPTWEnv", "MTVRPEnv")


def _zero_init(n) -> bool:
    init = nf.strip(n.args[1]) if len(n.args) > 1 and isinstance(n.args[1], vg.S) else None
    return init is not None and nf._fn(init) in ("torch.zeros", "torch.zeros_like")


def accumulators(ctx: Ctx):
    """C06.e: every per-route accumulator of a checker's simulation loop (a loop-carried value
    that starts at zero and is updated from itself) restarts at the depot, in one of the
    accepted forms: (i) `x[depot-condition] = 0` as the LAST write of the iteration, (ii) every
    term containing the previous value carries the factor (action != depot), (iii) clamp at
    zero with the depot's pseudo-demand -capacity (CVRP).  Sibling of C01.e; identified by
    data flow, not by variable names."""
    for cname in CHECK_ACCUM_ENVS:
        path = T.CHECK_ENVS[cname][0]
        env = EnvA(ctx.repo, path, cname)
        sl = env.slot("check_solution_validity")
        accs = []
        for n in _all_nodes(sl):
            if n.op == "loopvar" and n.id in vg.LOOP_BODY and _zero_init(n):
                body = vg.LOOP_BODY[n.id]
                if any(m is n for m in vg.walk(body, stop=lambda x, n=n: x is n and False)) and body is not n:
                    accs.append(n)
        if not accs:
            from ..model import AnalysisError
            raise AnalysisError(f"{cname}.check_solution_validity: no loop-carried accumulator found")
        for k, acc in enumerate(sorted(accs, key=lambda n: str(vg.site_of(n) or n.args[0]))):
            body = nf.strip(vg.LOOP_BODY[acc.id])
            ok, form = False, "none"
            if body.op == "store" and vg.is_const(body.args[2]) and float(body.args[2].args[0]) == 0.0:
                cond = body.args[1]
                c = nf.cmpnf(cond) if isinstance(cond, vg.S) else None
                inner = body.args[0]
                contributes = any(m is acc for m in vg.walk(inner)) and nf.strip(inner) is not acc
                if c is not None and c[1] == "==0" and "actions" in vg.params_of(cond) and contributes:
                    ok, form = True, "(i) reset at the depot as the last write"
                elif c is not None and c[1] == ">0" and contributes and "vehicle_capacity" in vg.cells_of(inner) and not (c[0] + nf.poly(inner)).terms:
                    # the cells below zero -- `inner < 0`, i.e. -inner > 0 -- are the ones raised to zero (a LOWER clamp: `inner > 0` would wipe every load)
                    ok, form = True, "(iii) clamp at zero with depot pseudo-demand -capacity"
            if not ok:
                p = nf.poly(body)
                with_prev = [fs for cf, fs in p.monos() if any(any(m is acc for m in vg.walk(a)) for a, _ in fs)]
                if with_prev and all(any(nf.strip(a, True).op == "cmp" and nf.strip(a, True).args[0] == "!=0" and "actions" in vg.params_of(a) for a, _ in fs) and
                                     any(a is acc for a, _ in fs) for fs in with_prev):
                    ok, form = True, "(ii) previous value multiplied by (action != depot)"
            ctx.ob("C06.e", f"{cname}.checker:accumulator#{k}:depot-reset", ok, sl.where,
                   f"loop-carried accumulator (init 0) ends the iteration as {vg.show(body, 3)}: {form}" +
                   ("" if ok else " -- it is not reset at the depot after the step's contribution was added (route loads/clocks leak into the next route or are cleared too early)"),
                   construct=f"{sl.fi.qualname}:accumulator:{k}:depot-reset-order")


ACC_SIGN = {"|dist|": +1, "demand": +1, "demand_linehaul": +1, "demand_backhaul": +1, "durations": +1, "service_time": +1, "time_windows": +1, "speed": -1}


def accumulator_signs(ctx: Ctx):
    """C06.j: the checker's simulated clocks / loads / lengths move in the right direction: travelled distances, service times,
    demands and window starts enter each loop-carried accumulator with a + sign, the speed with a - sign (it divides)."""
    for cname in CHECK_ACCUM_ENVS:
        path = T.CHECK_ENVS[cname][0]
        env = EnvA(ctx.repo, path, cname)
        sl = env.slot("check_solution_validity")
        n_acc = 0
        for n in _all_nodes(sl):
            if not (n.op == "loopvar" and n.id in vg.LOOP_BODY and _zero_init(n)):
                continue
            body = vg.LOOP_BODY[n.id]
            pol = nf.polarity(body)
            rel = {k: v for k, v in pol.items() if k in ACC_SIGN}
            if not rel:
                continue
            n_acc += 1
            wrong = {k: sorted(v) for k, v in rel.items() if v != {ACC_SIGN[k]}}
            ctx.ob("C06.j", f"{cname}.checker:{n.args[0]}:direction", not wrong, sl.where,
                   f"accumulator `{n.args[0]}` grows with {sorted(rel)}" if not wrong else
                   f"accumulator `{n.args[0]}`: {wrong} enter with the wrong sign (expected " + ", ".join(f"{k}: {ACC_SIGN[k]:+d}" for k in wrong) + "): the simulated clock / load runs backwards, "
                   "so violations of the limit go unnoticed", construct=f"{sl.fi.qualname}:accumulator-sign:" + "+".join(sorted(rel)))
        if n_acc == 0:
            from ..model import AnalysisError
            raise AnalysisError(f"{cname}.check_solution_validity: no accumulator with a signed operand found")


def _all_nodes(sl):
    seen = set()
    for e in sl.it.events:
        if e.kind == "assert" and isinstance(e.data, vg.S):
            for n in vg.walk(e.data):
                if n.id not in seen:
                    seen.add(n.id)
                    yield n


def nearest(leaves, lit: Lit) -> str:
    """Diagnostic: the assert literal sharing most cells with the reference literal."""
    if lit.kind != "cmp":
        return ""
    want = lit.big | lit.small
    best, score = None, 0
    for l in leaves:
        c = l.cmp()
        if c is None:
            continue
        pc, nc, _, _ = sided_atoms(c[0])
        sc = len((pc | nc) & want)
        if sc > score:
            best, score = l, sc
    if best is None:
        return ""
    pc, nc, pp, np_ = sided_atoms(best.cmp()[0])
    miss_b, miss_s = lit.big - pc, lit.small - nc
    return f"; closest assert: {show_leaf(best)} (missing on big side {sorted(miss_b)}, on small side {sorted(miss_s)})"


def gate(ctx: Ctx):
    base = ctx.repo.get_class("rl4co/envs/common/base.py", "RL4COEnvBase")
    fi = base.methods.get("get_reward")
    if fi is None:
        raise AnalysisError("RL4COEnvBase.get_reward not found")
    ctx.fn(fi)
    it = vg.Interp(ctx.repo, base)
    fr = it.run_function(fi)
    calls = [e for e in it.events if e.kind == "call-enter"]
    chk = [e for e in calls if e.data.func.name == "check_solution_validity"]
    rew = [e for e in calls if e.data.func.name == "_get_reward"]
    ok = len(chk) == 1 and len(rew) == 1
    why = ""
    if not ok:
        why = f"expected exactly one checker call and one _get_reward call, found {len(chk)} / {len(rew)}"
    else:
        conds = chk[0].conds
        guarded = len(conds) == 1 and conds[0].op == "selfattr" and conds[0].args[0] == "check_solution"
        if not guarded:
            ok, why = False, f"checker call is not guarded exactly by self.check_solution (conditions: {[vg.show(c, 3) for c in conds]})"
        elif chk[0].seq > rew[0].seq:
            ok, why = False, "checker runs after _get_reward"
        elif rew[0].conds:
            ok, why = False, "_get_reward is conditional"
        else:
            # the checker receives the same td / actions as _get_reward
            a1 = [vg.show(it.sym(v), 2) for v in list(chk[0].data.locals.values())[1:3]]
            a2 = [vg.show(it.sym(v), 2) for v in list(rew[0].data.locals.values())[1:3]]
            if a1 != a2:
                ok, why = False, f"checker called with {a1}, _get_reward with {a2}"
    ctx.ob("C06.d", "RL4COEnvBase.get_reward:gate", ok, fi.loc, why or "if self.check_solution: check_solution_validity(td, actions); return _get_reward(td, actions)",
           construct="RL4COEnvBase.get_reward:gate")


CLOCK_CELLS = {"CVRPTWEnv": "durations", "MTVRPEnv": "service_time"}


def checker_clock(ctx: Ctx):
    """C06.l the clock a checker simulates follows the same law as the env: clock' = max(clock + travel, window_start) + service,
    restarted at the depot.  The waiting time (the max) must be carried into the departure: `arrival + service` lets a tour
    that waits for one customer reach the next one in time on paper."""
    for cname, svc in CLOCK_CELLS.items():
        env = EnvA(ctx.repo, T.CHECK_ENVS[cname][0], cname)
        sl = env.slot("check_solution_validity")
        found = 0
        for n in _all_nodes(sl):
            if not (n.op == "loopvar" and n.id in vg.LOOP_BODY and _zero_init(n)):
                continue
            body = vg.LOOP_BODY[n.id]
            if svc not in {y.args[1] for y in vg.walk(body, stop=lambda z: z.op == "loopvar") if y.op == "cell0"}:
                continue                      # the clock is the loop-carried value that the service time is added to
            found += 1
            b = nf.strip(body)
            if b.op == "store":           # the depot reset `clock[node == 0] = 0`
                b = nf.strip(b.args[0])
            p = nf.poly(b)
            mons = list(p.terms.items())
            ok, why = False, f"clock' = {p.show(3)[:160]}"
            if len(mons) == 2 and all(c == 1 for _, c in mons) and all(len(m) == 1 and m[0][1] == 1 for m, _ in mons):
                atoms = [nf.Poly.ATOMS[m[0][0]] for m, _ in mons]
                mx = [a for a in atoms if nf._fn(a) in ("torch.max", "torch.maximum") or (a.op == "meth" and a.args[1] == "maximum")]
                sv = [a for a in atoms if a not in mx]
                if len(mx) == 1 and len(sv) == 1:
                    ops_ = [x for x in (mx[0].args[1:] if mx[0].op == "call" else [mx[0].args[0]] + list(mx[0].args[2:])) if isinstance(x, vg.S) and x.op != "kw"]
                    arr = [x for x in ops_ if any(y.op == "loopvar" and y.args[0] == n.args[0] for y in vg.walk(x))]
                    st_ = [x for x in ops_ if "time_windows" in vg.cells_of(x) and x not in arr]
                    sv_ok = vg.cells_of(sv[0]) == {svc}
                    def own_cells(x):
                        # cells read by this expression itself, not through the history of a loop-carried value
                        return {y.args[1] for y in vg.walk(x, stop=lambda z: z.op == "loopvar") if y.op == "cell0"}
                    arr_ok = len(arr) == 1 and svc not in own_cells(arr[0]) and "time_windows" not in own_cells(arr[0])
                    ok = len(ops_) == 2 and len(st_) == 1 and arr_ok and sv_ok
                    why = f"clock' = max(clock + travel: {arr_ok}, window start: {len(st_) == 1}) + {svc}: {sv_ok}"
            ctx.ob("C06.l", f"{cname}.checker:clock-carries-the-wait", ok, sl.where, why, construct=f"{cname}.check_solution_validity:clock-formula")
            # the simulated clock is a real number, as in the env (`current_time + dist <= window end` in the mask): an arrival
            # truncated to an integer forgives up to one time unit of lateness -- everything, once times are scaled to [0, 1]
            TRUNC = {"int", "long", "short", "floor", "trunc", "round", "ceil", "floor_", "trunc_", "round_"}
            cut = [y for y in vg.walk(body, stop=lambda z: z.op == "loopvar")
                   if (y.op == "meth" and y.args[1] in TRUNC) or nf._fn(y) in ("torch.floor", "torch.trunc", "torch.round", "torch.ceil")]
            cut = [y for y in cut if any(z.op == "loopvar" and z.args[0] == n.args[0] for z in vg.walk(y))]
            ctx.ob("C06.l", f"{cname}.checker:clock-not-truncated", not cut, sl.where,
                   "the arrival time is compared as computed" if not cut else
                   f"the simulated clock passes through {vg.show(cut[0], 3)}: lateness below one time unit is forgiven (all of it when the generator scales times to [0, 1]), while the mask compares the untruncated time",
                   construct=f"{cname}.check_solution_validity:clock-truncated")
        if not found:
            raise AnalysisError(f"{cname}.check_solution_validity: simulated clock not found")


def padding_is_depot(ctx: Ctx):
    """C06.m `each customer exactly once` on a sorted action sequence has two halves: the LAST n entries equal 1..n, and every
    entry in front of them is the depot (0).  Without the second half a customer may repeat (the sort pushes the extra copy
    into the head, where nothing looks)."""
    for cname in ("CVRPEnv", "SVRPEnv", "MTVRPEnv"):
        env = EnvA(ctx.repo, T.CHECK_ENVS[cname][0], cname)
        sl = env.slot("check_solution_validity")
        tails, heads = 0, 0
        for l in assert_leaves(sl):
            c = l.cmp()
            if c is None or c[1] != "==0" or not l.conj:
                continue
            atoms = c[0].atoms()
            subs = [a for a in atoms if a.op == "sub" and any(x.op == "meth" and x.args[1] == "sort" for x in vg.walk(a.args[0]))]
            if not subs:
                continue
            idx = subs[0].args[1]
            last = (idx.args if idx.op == "tuple" else (idx,))[-1]
            if last.op != "slice":
                continue
            has_arange = any(nf._fn(a) == "torch.arange" for a in atoms)
            if has_arange and not vg.is_none(last.args[0]) and vg.is_none(last.args[1]):
                tails += 1                    # sorted[:, -n:] == arange(1, n + 1)
            if not has_arange and len(atoms) == 1 and vg.is_none(last.args[0]) and not vg.is_none(last.args[1]) and c[0].const_term() == 0:
                heads += 1                    # sorted[:, :-n] == 0
        ctx.ob("C06.m", f"{cname}.checker:customers-once:head-is-depot", tails >= 1 and heads >= 1, sl.where,
               f"sorted actions: tail equals 1..n ({tails}), head equals 0 ({heads})" if heads else
               f"sorted actions: tail equals 1..n ({tails}) but the entries in front of it are not required to be the depot: a repeated customer is accepted",
               construct=f"{cname}.check_solution_validity:customers-once:head")


def pctsp_all_visited_count(ctx: Ctx):
    """C06.n PCTSP / SPCTSP accept a tour below the prize requirement only if it visits EVERY customer: the number of non-depot
    actions is compared with the number of customers of the instance -- resolved through _reset and the generator to `num_loc`
    (sa/symshape.py), whatever tensor's shape it is read from."""
    from .. import symshape
    from ..envs import generator_slot
    for cname in ("PCTSPEnv", "SPCTSPEnv"):
        env = EnvA(ctx.repo, T.CHECK_ENVS[cname][0], cname)
        sl = env.slot("check_solution_validity")
        g, gsl = generator_slot(ctx.repo, env.cls)
        rs = env.slot("_reset")
        SS = symshape.SymShape([rs.td.cells, gsl.fr.ret.cells])
        want = SS.dim(vg.mk("cell0", "td", "locs"), -2)
        ok, why = False, "count comparison of the all-visited alternative not found"
        if want is not None:
            want = want - nf.Poly.const(1)        # locs of the state include the depot
            for l in assert_leaves(sl):
                c = l.cmp()
                if c is None or c[1] != "==0":
                    continue
                P = c[0]
                def resolved(atom):
                    d_ = nf.dim_of(atom)
                    if d_ is None or not isinstance(d_[1], int) or d_[1] >= 0:
                        return None
                    return SS.dim(d_[0], d_[1])
                inst = nf.Poly.const(0)       # the part of P built from instance shapes and constants
                n_count = 0
                for m, c_ in P.terms.items():
                    vals_ = [resolved(nf.Poly.ATOMS[a_]) for a_, _pw in m]
                    if all(v is not None for v in vals_):
                        term = nf.Poly.const(c_)
                        for v in vals_:
                            term = term * v
                        inst = inst + term
                    else:
                        n_count += 1
                if not n_count or inst == nf.Poly.const(0):
                    continue
                # P = count-part + inst == 0  <=>  count == -inst
                # the count itself: (length of the action sequence) - (number of depot entries), with one common sign s:
                # P = s * (L - Z - customers)
                cnt = [(m, c_) for m, c_ in P.terms.items() if not all(resolved(nf.Poly.ATOMS[a_]) is not None for a_, _pw in m)]
                form = False
                if len(cnt) == 2 and all(len(m) == 1 and m[0][1] == 1 for m, _ in cnt):
                    at = [(nf.Poly.ATOMS[m[0][0]], c_) for m, c_ in cnt]
                    Ls = [(a_, c_) for a_, c_ in at if nf.dim_of(a_) is not None and "actions" in vg.params_of(nf.dim_of(a_)[0]) and nf.dim_of(a_)[1] in (-1, 1)]
                    Zs = [(a_, c_) for a_, c_ in at if (a_, c_) not in Ls]
                    if len(Ls) == 1 and len(Zs) == 1:
                        z = nf.strip(Zs[0][0], True)
                        is_sum = (z.op == "meth" and z.args[1] in ("sum", "count_nonzero")) or nf._fn(z) in ("torch.sum", "torch.count_nonzero")
                        zero_ind = False
                        if is_sum:
                            inner = z.args[0] if z.op == "meth" else z.args[1]
                            for y in vg.walk(inner):
                                if y.op == "cmp":
                                    opy, py = y.args[0], nf.poly(y.args[1])
                                else:
                                    cy = nf.cmpnf(y)
                                    if cy is None:
                                        continue
                                    py, opy = cy
                                if opy == "==0" and py.const_term() == 0 and "actions" in vg.params_of(y):
                                    zero_ind = True
                                elif opy in ("!=0", ">0", ">=0"):
                                    zero_ind = False
                                    break
                        sL, sZ = Ls[0][1], Zs[0][1]
                        form = zero_ind and sZ == -sL and abs(sL) == 1 and (inst == want * nf.Poly.const(-sL) if hasattr(want, "__mul__") else False)
                ok = form
                why = (f"(length of the action sequence) - (number of depot entries) == customers of the instance ({want.show(2)}): {form}")
        ctx.ob("C06.n", f"{cname}.checker:all-visited-count", ok, sl.where, why, construct=f"{cname}.check_solution_validity:all-visited-count")


def svrp_every_route_checked(ctx: Ctx):
    """C06.o SVRP validates skills route by route in a Python loop over the depot visits of the action sequence.  Every route
    must be covered, including the one that is still open when the sequence ends (mask-produced tours do not end with a depot
    visit): either the sequence is closed with a depot visit before the depot positions are collected, or a trailing check of
    `[start:]` follows the loop (and the switch to the next batch row).  `_get_reward`, which walks the same positions, has
    these trailing statements; the two siblings must agree."""
    import ast
    env = EnvA(ctx.repo, T.CHECK_ENVS["SVRPEnv"][0], "SVRPEnv")
    fi = env.resolve("check_solution_validity")
    ctx.fn(fi)
    loops = [n for n in fi.node.body if isinstance(n, ast.For)]
    ok, why = False, f"expected one loop over the depot visits, found {len(loops)}"
    if len(loops) == 1:
        lp = loops[0]
        idx_after = fi.node.body.index(lp)
        trailing = [st for st in fi.node.body[idx_after + 1:] for n in ast.walk(st) if isinstance(n, ast.Assert) and "skills" in ast.unparse(n.test)]
        # closed sequence: the positions iterated over come from a tensor that had a depot column appended
        it_name = lp.iter.id if isinstance(lp.iter, ast.Name) else None
        closed = False
        if it_name:
            src = None
            for st in fi.node.body[:idx_after]:
                if isinstance(st, ast.Assign) and any(isinstance(t, ast.Name) and t.id == it_name for t in st.targets):
                    src = st.value
            if src is not None:
                names = {x.id for x in ast.walk(src) if isinstance(x, ast.Name)}
                for st in fi.node.body[:idx_after]:
                    if isinstance(st, ast.Assign) and any(isinstance(t, ast.Name) and t.id in names for t in st.targets):
                        txt = ast.unparse(st.value)
                        if ("torch.cat" in txt or "F.pad" in txt or "pad(" in txt) and "actions" in txt and ("zeros" in txt or "pad" in txt):
                            closed = True
        ok = closed or bool(trailing)
        why = (f"the action sequence is closed with a depot visit before the depot positions are collected: {closed}; trailing check of the open route after the loop: {bool(trailing)}")
    ctx.ob("C06.o", "SVRPEnv.checker:every-route-checked", ok, fi.loc, why if ok else why + " -- the route of the last technician (and a sequence without depot visits) is never validated",
           construct="SVRPEnv.check_solution_validity:last-route")
    # the technician that a route is judged against: `_step` and `_get_reward` hand the vehicle to the next technician at
    # EVERY depot visit, also after an empty route (the mask forces one when the current technician can serve nothing that
    # is left).  The checker's counter must therefore advance once per loop iteration, unconditionally, after the check.
    ok2, why2 = False, why
    if len(loops) == 1:
        lp = loops[0]
        top = lp.body
        tech_idx = set()
        for a in [n for n in ast.walk(lp) if isinstance(n, ast.Assert)]:
            for sub in ast.walk(a.test):
                if isinstance(sub, ast.Subscript) and "techs" in ast.unparse(sub.value):
                    tech_idx |= {x.id for x in ast.walk(sub.slice) if isinstance(x, ast.Name)}
        def is_inc(st, nm):
            if isinstance(st, ast.AugAssign) and isinstance(st.op, ast.Add) and isinstance(st.target, ast.Name) and st.target.id == nm:
                return isinstance(st.value, ast.Constant) and st.value.value == 1
            if isinstance(st, ast.Assign) and len(st.targets) == 1 and isinstance(st.targets[0], ast.Name) and st.targets[0].id == nm and isinstance(st.value, ast.BinOp) and isinstance(st.value.op, ast.Add):
                sides = [st.value.left, st.value.right]
                return any(isinstance(x, ast.Name) and x.id == nm for x in sides) and any(isinstance(x, ast.Constant) and x.value == 1 for x in sides)
            return False
        ctrs = [nm for nm in sorted(tech_idx) if any(is_inc(n, nm) for n in ast.walk(lp))]
        if len(ctrs) != 1:
            raise AnalysisError(f"SVRPEnv.check_solution_validity: cannot identify the technician counter (candidates {sorted(tech_idx)})")
        ctr = ctrs[0]
        top_incs = [i for i, st in enumerate(top) if is_inc(st, ctr)]
        all_incs = [n for n in ast.walk(lp) if isinstance(n, ast.stmt) and is_inc(n, ctr)]
        jumps = [n for n in ast.walk(lp) if isinstance(n, (ast.Continue, ast.Break))]
        check_pos = [i for i, st in enumerate(top) if any(isinstance(n, ast.Assert) and "techs" in ast.unparse(n.test) for n in ast.walk(st))]
        ok2 = len(top_incs) == 1 and len(all_incs) == 1 and not jumps and bool(check_pos) and max(check_pos) < top_incs[0]
        why2 = (f"`{ctr}` indexes td['techs'] in the skill check; one unconditional `{ctr} += 1` per depot visit: {len(top_incs) == 1 and len(all_incs) == 1}; "
                f"no skipped iteration: {not jumps}; the increment follows the check: {bool(check_pos) and bool(top_incs) and max(check_pos) < top_incs[0]}")
        if not ok2:
            why2 += " -- `_step` / `_get_reward` change technician at every depot visit (empty routes included); the checker would judge later routes against the wrong technician"
    ctx.ob("C06.o", "SVRPEnv.checker:technician-per-route", ok2, fi.loc, why2, construct="SVRPEnv.check_solution_validity:technician-counter")


def sdvrp_delivery_law(ctx: Ctx):
    """C06.q the SDVRP checker replays the tour: at every stop the vehicle delivers d = min(demand left at the node, capacity -
    load), the node's demand shrinks by d, the load grows by d and is emptied at the depot; at the end no demand is left.  The
    three update formulas are compared in polynomial normal form (the loop-carried values are the atoms)."""
    env = EnvA(ctx.repo, T.CHECK_ENVS["SDVRPEnv"][0], "SDVRPEnv")
    sl = env.slot("check_solution_validity")
    lvs = {}
    for n in _all_nodes(sl):
        if n.op == "loopvar" and n.id in vg.LOOP_BODY:
            lvs.setdefault(n.id, n)
    dem = [n for n in lvs.values() if len(n.args) > 1 and isinstance(n.args[1], vg.S) and "demand" in vg.cells_of(n.args[1]) and nf._fn(nf.strip(n.args[1])) in ("torch.cat", "torch.concat")]
    use = [n for n in lvs.values() if len(n.args) > 1 and isinstance(n.args[1], vg.S) and nf._fn(nf.strip(n.args[1])) in ("torch.zeros_like", "torch.zeros")]
    if len(dem) != 1 or len(use) != 1:
        raise AnalysisError(f"SDVRPEnv.check_solution_validity: loop-carried demand / load not identified ({len(dem)}, {len(use)})")
    dem, use = dem[0], use[0]
    bd, bu = nf.strip(vg.LOOP_BODY[dem.id]), nf.strip(vg.LOOP_BODY[use.id])
    mins = [n for n in vg.walk(bd) if nf._fn(n) in ("torch.min", "torch.minimum") and len([a for a in n.args[1:] if isinstance(a, vg.S) and a.op != "kw"]) == 2]
    ok_d = ok_dem = ok_use = False
    why = "delivered amount min(demand left, capacity - load) not found"
    if len({m.id for m in mins}) == 1:
        D = mins[0]
        a1, a2 = [a for a in D.args[1:] if isinstance(a, vg.S) and a.op != "kw"]
        def left_at_node(x):
            x = nf.strip(x)
            return x.op == "sub" and nf.strip(x.args[0]) is dem
        def room(x):
            try:
                p = nf.poly(x)
            except Exception:
                return False
            t = {}
            for m, c in p.terms.items():
                if len(m) != 1 or m[0][1] != 1:
                    return False
                t[nf.Poly.ATOMS[m[0][0]]] = c
            caps = [a for a in t if "vehicle_capacity" in vg.cells_of(a) and not any(y is use for y in vg.walk(a))]
            loads = [a for a in t if nf.strip(a) is use]
            return len(t) == 2 and len(caps) == 1 and len(loads) == 1 and t[caps[0]] == 1 and t[loads[0]] == -1
        ok_d = (left_at_node(a1) and room(a2)) or (left_at_node(a2) and room(a1))
        # demand' = demand - d at the node
        if bd.op == "store" and nf.strip(bd.args[0]) is dem:
            at_node = vg.mk("sub", dem, bd.args[1])
            ok_dem = nf.poly(bd.args[2]) == nf.poly(at_node) - nf.poly(D)
        # load' = (load + d), emptied at the depot
        if bu.op == "store" and vg.is_const(bu.args[2], 0):
            cz = nf.cmpnf(bu.args[1])
            at_depot = cz is not None and cz[1] == "==0" and cz[0].const_term() == 0
            ok_use = nf.poly(bu.args[0]) == nf.poly(use) + nf.poly(D) and at_depot
        why = f"d = min(demand left at the node, capacity - load): {ok_d}; demand' = demand - d: {ok_dem}; load' = load + d, 0 at the depot: {ok_use}"
    # the depot column of the replayed demands is -capacity (a stop at the depot `delivers` -capacity and is then emptied)
    init = nf.strip(dem.args[1])
    items = nf._seq_items(init.args[1]) or []
    ok_init = len(items) == 2 and nf.poly(items[0]).terms and all(c == -1 for c in nf.poly(items[0]).terms.values()) and "vehicle_capacity" in vg.cells_of(items[0]) \
        and nf.strip(items[1]).op == "cell0" and nf.strip(items[1]).args[1] == "demand"
    ok = ok_d and ok_dem and ok_use and bool(ok_init)
    ctx.ob("C06.q", "SDVRPEnv.checker:delivery-law", ok, sl.where, why + f"; replay starts from cat((-capacity, demand)): {bool(ok_init)}",
           construct="SDVRPEnv.check_solution_validity:delivery-law")
    # the final `no demand left` assertion ranges over the CUSTOMER columns: column 0 of the replayed table is the depot's
    # bookkeeping entry, -capacity until the first stop at the depot -- an instance served in one route never stops there (F53)
    finals = []
    for e in sl.events("assert"):
        d = e.data
        if not isinstance(d, vg.S) or not any(n.op == "loop" and nf.strip(n.args[0]) is nf.strip(dem.args[1]) or (n.op == "loop" and n.id == getattr(dem, "id", None)) for n in vg.walk(d)):
            continue
        x = nf.strip(d, True)
        while (x.op == "meth" and x.args[1] == "all") or nf._fn(x) == "torch.all":
            x = nf.strip(x.args[0] if x.op == "meth" else x.args[1], True)
        r = nf._cmp_raw(x)
        if r is None or r[1] != "==" or not vg.is_const(r[2], 0):
            continue
        lhs = nf.strip(r[0])
        finals.append(lhs)
    okf, whyf = False, "final `demands == 0` assertion on the replayed table not found"
    if len(finals) == 1:
        lhs = finals[0]
        cust_only = False
        if lhs.op == "sub":
            idx = lhs.args[1].args if lhs.args[1].op == "tuple" else (lhs.args[1],)
            last = idx[-1]
            cust_only = isinstance(last, vg.S) and last.op == "slice" and vg.is_const(last.args[0], 1) and vg.is_none(last.args[1]) and vg.is_none(last.args[2]) and \
                all(c_.op == "ellipsis" or (c_.op == "slice" and all(vg.is_none(y) for y in c_.args)) for c_ in idx[:-1])
        okf = cust_only
        whyf = f"final assertion compares {vg.show(lhs, 3)[:60]} with 0: customer columns only -- {cust_only}" + \
            ("" if cust_only else "; the depot column is -capacity unless the depot was visited, so a complete one-route episode is rejected")
    ctx.ob("C06.q", "SDVRPEnv.checker:no-demand-left-over-customers", okf, sl.where, whyf, construct="SDVRPEnv.check_solution_validity:final-assert-columns")


def single_tour(ctx: Ctx):
    """C06.p improvement envs store the tour as a successor list (node -> next node).  A permutation is not enough: it may split
    into several cycles.  The checker must walk the list from the depot / node 0 for n steps (`cur = solution[rows, cur]`) and
    assert that every node was reached (`(visited_time > 0).all()` or an equivalent count)."""
    import ast
    for cname, path in (("TSPkoptEnv", "rl4co/envs/routing/tsp/env.py"), ("PDPRuinRepairEnv", "rl4co/envs/routing/pdp/env.py")):
        cls = ctx.repo.get_class(path, cname)
        fi = cls.methods.get("check_solution_validity")
        if fi is None:
            raise AnalysisError(f"{cname}.check_solution_validity not found")
        ctx.fn(fi)
        walk_vars, stamp_vars = set(), set()
        for lp in [n for n in ast.walk(fi.node) if isinstance(n, ast.For)]:
            for st in ast.walk(lp):
                # cur = solution[rows, cur]
                if isinstance(st, ast.Assign) and isinstance(st.targets[0], ast.Name) and isinstance(st.value, ast.Subscript):
                    tgt = st.targets[0].id
                    if any(isinstance(x, ast.Name) and x.id == tgt for x in ast.walk(st.value.slice)):
                        walk_vars.add(tgt)
                # stamp[rows, solution[rows, cur]] = i + 1
                if isinstance(st, ast.Assign) and isinstance(st.targets[0], ast.Subscript) and isinstance(st.targets[0].value, ast.Name):
                    stamp_vars.add(st.targets[0].value.id)
        reached = False
        for a in [n for n in ast.walk(fi.node) if isinstance(n, ast.Assert)]:
            for c in ast.walk(a.test):
                if isinstance(c, ast.Compare) and len(c.ops) == 1:
                    sides = [c.left, c.comparators[0]]
                    names = [x.id for x in sides if isinstance(x, ast.Name)]
                    zero = [x for x in sides if isinstance(x, ast.Constant) and x.value == 0]
                    if zero and any(nm in stamp_vars for nm in names) and isinstance(c.ops[0], (ast.Gt, ast.Lt, ast.NotEq, ast.GtE, ast.LtE)):
                        strict = isinstance(c.ops[0], (ast.Gt, ast.Lt, ast.NotEq))
                        reached = reached or strict
        ok = bool(walk_vars) and bool(stamp_vars) and reached
        ctx.ob("C06.p", f"{cname}.checker:single-tour", ok, fi.loc,
               f"successor walk: {bool(walk_vars)}; visit stamps: {bool(stamp_vars)}; every node asserted to be reached: {reached}" +
               ("" if ok else " -- a permutation with several cycles (sub-tours) is accepted"), construct=f"{cname}.check_solution_validity:single-tour")


def state_the_checker_agrees_with(ctx: Ctx):
    """C06.r / C06.s / C06.t the checker recomputes the constraints from the instance; the episode it is handed was produced
    through the mask, which reads the STATE.  The two agree only if the state is the instance's and follows the same law:
      r) a variant's class-level switch reaches the methods that read it (SPCTSP's `_stochastic`: which prize `_reset` stores,
         `_step` accumulates and the checker sums) -- C01.v;
      s) the env clock follows the checker's recurrence  t' = max(t + travel, window start) + service  (C01.t, exact form);
      t) the bounds `_reset` derives for the mask (remaining length budget, capacities, deadlines) are computed from each
         instance's own row -- batch-axis engine of C04 on every cell written by `_reset` of the checked environments."""
    from . import C01
    from ..tables import routing as TR_
    n0 = len(ctx.obligations)
    C01.subclass_switches_take_effect(ctx)
    for o in ctx.obligations[n0:]:
        o.rule = "C06.r"
    n1 = len(ctx.obligations)
    for cname, (path, family) in TR_.ENVS.items():
        C01.clock_update(ctx, EnvA(ctx.repo, path, cname))
    if len(ctx.obligations) == n1:
        raise AnalysisError("no clock-update obligation produced (CVRPTWEnv expected)")
    for o in ctx.obligations[n1:]:
        o.rule = "C06.s"
    C01.op_lengths(ctx, "C06.v")
    # C06.x: what the checker reads of the instance is never rewritten by `_step` (the checker is handed the FINAL state of the
    # episode: `demand` replaced by the remaining demand makes every tour `serve` all customers).  The improvement envs' checker
    # reads `rec_best`, which is state by design.
    STATE_BY_DESIGN = {"rec_best", "rec_current"}
    for cname, (path, family) in T.CHECK_ENVS.items():
        env_ = EnvA(ctx.repo, path, cname)
        ck_, st_ = env_.slot("check_solution_validity"), env_.slot("_step")
        if ck_ is None or st_ is None or st_.td is None:
            continue
        read = set()
        for e in ck_.events("assert"):
            if isinstance(e.data, vg.S):
                read |= vg.cells_of(e.data)
        rew = {k for k, v in st_.td.cells.items() if not (v.op == "cell0" and v.args[1] == k)}
        both = sorted((read & rew) - STATE_BY_DESIGN)
        ctx.ob("C06.x", f"{cname}.checker:instance-fields-survive-the-episode", not both, ck_.where,
               f"fields the checker reads: {sorted(read)[:8]}; rewritten by _step: {both or 'none of them'}",
               construct=f"{cname}:checker-reads-rewritten:{','.join(both)}")
    # C06.w: a file loaded with scale=True is in the units the generator emits: the same fields are rescaled (C19.b, shared)
    from . import C19
    from ..core import Ctx as _Ctx
    import contextlib, io
    sub = _Ctx("C19", ctx.repo, "quick", 0)
    with contextlib.redirect_stdout(io.StringIO()):
        C19.run(sub)
    got = [o for o in sub.obligations if o.rule == "C19.b" and "MTVRPEnv.load_data" in o.instance]
    if not got:
        raise AnalysisError("C19.b obligations for MTVRPEnv.load_data not produced")
    for o in got:
        o.rule = "C06.w"
        ctx.obligations.append(o)
    from .C04 import batch_rows
    batch_rows(ctx, "C06.t", envs=tuple(T.CHECK_ENVS), meths=("_reset",))


def run_thorough(ctx: Ctx):
    from ..selftest.corpus import for_prop
    from ..selftest.runner import run_corpus
    run_corpus(ctx, for_prop("C06"))
