"""C07 -- scheduling environments yield valid schedules with the reported makespan.

C07.a  availability coverage: the job x machine mask excludes done jobs, jobs in process, busy
       machines (strictly later release) and ineligible machines; FFSP offers a job only in its
       current stage and when not waiting
C07.b  schedule writes agree (FJSP/JSSP _make_step): start = time, finish = busy_until = time + p
       with the same p = proc_times[b, m, op] and the same (m, op) from _translate_action;
       ma_assignment / op_scheduled / job_in_process written at those indices
C07.c  action encoding: the mask flattens (job, machine) as "(j m)", the decode uses // and %
       by the number of machines (the minor factor), the no-op column is first and the action is
       shifted by exactly one; the L2D decoder flattens its logits in the same order
C07.d  release logic (_transit_to_next_time): time moves to a strictly later machine release, a
       job is released when its operation's finish time <= time, next_op advances only for
       finished, not-last operations
C07.e  FFSP step writes: schedule[b, machine, job] = time_idx, both wait counters get the same
       job_duration[b, job, machine]; SMTWTP: dummy node masked at reset and never re-opened
"""
from __future__ import annotations

from .. import layout, nf, vg
from ..core import Ctx
from ..envs import EnvA, Lit
from ..model import AnalysisError
from ..tables import routing as T
from ..tables import scheduling as TS
from .C01 import check_literals, mask_root

FLOOR = 92
EXPLANATION = (
    "Static analysis of FJSPEnv/JSSPEnv (_get_job_machine_availability, get_action_mask, _translate_action, _make_step, "
    "_transit_to_next_time, _step), FFSPEnv (_step, _update_step_state), SMTWTPEnv and the L2D decoder: mask literal "
    "coverage, agreement of the indexed schedule writes (same processing time, same (machine, op) indices), agreement of "
    "the (job, machine) flattening with the // and % decode and the no-op shift, release/time-advance comparisons. Structural "
    "necessary conditions; absence of machine overlap / precedence violations for every interleaving of waits is a runtime "
    "property and is not decided."
)
RULE = "one obligation per (env, clause instance)"

FJ = "rl4co/envs/scheduling/fjsp/env.py"


def same(a, b) -> bool:
    return nf.norm(a) is nf.norm(b)


def as_store(v):
    v = nf.strip(v)
    if v is not None and v.op == "nograd":
        v = v.args[0]
    return v if v.op == "store" else None


def idx_items(idx):
    return list(idx.args) if isinstance(idx, vg.S) and idx.op == "tuple" else [idx]


def rule_a(ctx: Ctx):
    old = T.BOOL_CELLS
    try:
        T.BOOL_CELLS = TS.BOOL_CELLS
        for cname, path in TS.ENVS.items():
            env = EnvA(ctx.repo, path, cname)
            sl, root = mask_root(env, "recompute")
            ctx.fn(sl.fi)
            check_literals(ctx, "C07", env, sl, root, TS.AVAIL, "mask", "looser", ids=("C07.a", "C07.a"))
            # exclusions only accumulate (a term can only remove actions): every availability literal is negative
            leaves = [l for l in nf.boolwalk(root, TS.BOOL_CELLS) if any(p[0] == "cat" and p[1] == 1 for p in l.part)]
            pos = [l for l in leaves if l.sign > 0 and l.node.op != "constfill"]
            ctx.ob("C07.a", f"{cname}.mask:exclusions-only", not pos and bool(leaves), sl.where,
                   f"{len(leaves)} job/machine literals, all exclusions" if not pos else f"a term re-enables actions: {pos[:2]}",
                   construct=f"{sl.fi.qualname}:availability:monotone")
        env = EnvA(ctx.repo, T.ALL_ENVS["FFSPEnv"], "FFSPEnv")
        sl = env.slot("_update_step_state")
        ctx.fn(sl.fi)
        check_literals(ctx, "C07", env, sl, sl.cell("action_mask"), TS.FFSP, "mask", "looser", ids=("C07.a", "C07.a"))
    finally:
        T.BOOL_CELLS = old


def rule_b(ctx: Ctx, cname: str, path: str):
    env = EnvA(ctx.repo, path, cname)
    sl = env.slot("_make_step")
    if sl is None:
        raise AnalysisError(f"{cname}._make_step not found")
    ctx.fn(sl.fi)
    if sl.problems():
        raise AnalysisError(f"{cname}._make_step: unhandled {sl.problems()[:3]}")
    tr = [f for f in sl.it.call_frames if f.func is not None and f.func.name == "_translate_action"]
    if len(tr) != 1:
        raise AnalysisError(f"{cname}._make_step: expected one _translate_action call, found {len(tr)}")
    ctx.fn(tr[0].func)
    ret = tr[0].ret
    items = ret.items if isinstance(ret, vg.Tup) else (list(ret.args) if isinstance(ret, vg.S) and ret.op == "tuple" else None)
    if not items or len(items) != 3:
        raise AnalysisError(f"{cname}._translate_action: (job, op, machine) triple not resolved")
    J, O, M = [sl.it.sym(x) for x in items]
    cells = {k: as_store(sl.cell(k)) for k in ("start_times", "finish_times", "busy_until", "ma_assignment", "op_scheduled", "job_in_process")}
    for k, v in cells.items():
        if v is None:
            raise AnalysisError(f"{cname}._make_step: {k} is not written by an indexed store")
    time = vg.mk("cell0", sl.td.name, "time")

    def idx_ok(key, want):
        it = idx_items(cells[key].args[1])
        return len(it) == len(want) + 1 and all(same(a, b) for a, b in zip(it[1:], want))

    fin, bus = cells["finish_times"].args[2], cells["busy_until"].args[2]
    p_fin = nf.poly(fin) - nf.poly(time)
    p_bus = nf.poly(bus) - nf.poly(time)
    patoms = p_fin.atoms()
    okp = len(patoms) == 1 and p_fin == nf.Poly.atom(patoms[0])
    pdesc = "?"
    if okp:
        pa = patoms[0]
        pdesc = vg.show(pa, 3)
        okp = pa.op == "sub" and nf.strip(pa.args[0]).op == "cell0" and nf.strip(pa.args[0]).args[1] == "proc_times"
        if okp:
            it = idx_items(pa.args[1])
            okp = len(it) == 3 and same(it[1], M) and same(it[2], O)
    ctx.ob("C07.b", f"{cname}._make_step:proc-time", okp, sl.where,
           f"finish - time = {pdesc}; must be proc_times[b, machine, op] with (machine, op) from _translate_action",
           construct=f"{sl.fi.qualname}:proc-time-index")
    ctx.ob("C07.b", f"{cname}._make_step:finish=busy", p_fin == p_bus, sl.where,
           f"finish_times - time = {p_fin.show(2)} ; busy_until - time = {p_bus.show(2)}", construct=f"{sl.fi.qualname}:finish-vs-busy")
    ctx.ob("C07.b", f"{cname}._make_step:start=time", same(cells["start_times"].args[2], time), sl.where,
           f"start_times[b, op] = {vg.show(cells['start_times'].args[2], 3)}", construct=f"{sl.fi.qualname}:start-time")
    for key, want, nm in (("start_times", [O], "op"), ("finish_times", [O], "op"), ("busy_until", [M], "machine"), ("ma_assignment", [M, O], "machine,op"),
                          ("op_scheduled", [O], "op"), ("job_in_process", [J], "job")):
        ctx.ob("C07.b", f"{cname}._make_step:{key}[b,{nm}]", idx_ok(key, want), sl.where,
               f"{key} written at {vg.show(cells[key].args[1], 3)}", construct=f"{sl.fi.qualname}:{key}:index")
    for key in ("ma_assignment", "op_scheduled", "job_in_process"):
        v = cells[key].args[2]
        ctx.ob("C07.b", f"{cname}._make_step:{key}:=1", vg.is_const(v) and bool(v.args[0]), sl.where, f"value {vg.show(v, 2)}", construct=f"{sl.fi.qualname}:{key}:value")
    # op from the job's next_op
    okO = "next_op" in vg.cells_of(O) and any(n is nf.strip(J) or same(n, J) for n in vg.walk(O))
    ctx.ob("C07.b", f"{cname}._translate_action:op=next_op[job]", okO, tr[0].func.loc, f"op = {vg.show(O, 4)}", construct=f"{tr[0].func.qualname}:op")
    return J, O, M, tr[0]


def rule_c(ctx: Ctx):
    env = EnvA(ctx.repo, FJ, "FJSPEnv")
    # mask flatten
    sl = env.slot("get_action_mask")
    ctx.fn(sl.fi)
    pats = [n for n in vg.walk(sl.fr.ret) if nf._fn(n) == "einops.rearrange"]
    ok, why = False, "no rearrange of the (job, machine) mask"
    minor_is_machine = False
    for n in pats:
        pat = n.args[2].args[0] if vg.is_const(n.args[2]) else None
        if not pat:
            continue
        l, r = layout.parse_einops(pat)
        g = layout.groups(r)
        if len(l) == 3 and g and len(g[0]) == 2 and set(g[0]) == {l[1], l[2]}:
            # operand built as full((batch, num_jobs, num_mas)): axis 2 is the machine axis
            src = nf.strip(n.args[1])
            shape_ok = False
            for m in vg.walk(src):
                if nf._fn(m) in ("torch.full", "torch.zeros") and len(m.args) >= 2 and m.args[1].op == "tuple" and len(m.args[1].args) == 3:
                    a2 = m.args[1].args[2]
                    shape_ok = "num_mas" in vg.selfattrs_of(a2) | {x.args[0] for x in vg.atoms(a2) if x.op == "selfattr"}
            minor_is_machine = g[0][1] == l[2] and shape_ok
            ok = minor_is_machine
            why = f'pattern "{pat}": minor factor of the flattened axis is {g[0][1]!r} = axis 2 (machines: {shape_ok})'
    ctx.ob("C07.c", "FJSPEnv.get_action_mask:flatten(j m)", ok, sl.where, why, construct="FJSPEnv.get_action_mask:flatten")
    # no-op first
    root = nf.strip(sl.fr.ret)
    first_ok = False
    if nf._fn(root) in ("torch.cat",):
        items = nf._seq_items(root.args[1])
        first_ok = bool(items) and "done" in vg.cells_of(items[0]) and len(items) == 2
    ctx.ob("C07.c", "FJSPEnv.get_action_mask:no-op-first", first_ok, sl.where, "mask = cat((no_op_mask, ~job_machine_mask), dim=1)", construct="FJSPEnv.get_action_mask:noop-first")
    # decode
    tr = env.slot("_translate_action")
    ctx.fn(tr.fi)
    ret = tr.fr.ret
    items = ret.items if isinstance(ret, vg.Tup) else list(ret.args)
    J, O, M = [tr.it.sym(x) for x in items]
    act = vg.mk("cell0", tr.td.name if tr.td else "td", "action")
    okJ = J.op == "//" and nf.strip(J.args[0]).op == "cell0" and J.args[0].args[1] == "action" and J.args[1].op == "selfattr" and J.args[1].args[0] == "num_mas"
    okM = M.op == "%" and nf.strip(M.args[0]).op == "cell0" and M.args[0].args[1] == "action" and M.args[1].op == "selfattr" and M.args[1].args[0] == "num_mas"
    ctx.ob("C07.c", "FJSPEnv._translate_action:job=action//num_mas", okJ, tr.where, f"job = {vg.show(J, 3)}", construct="FJSPEnv._translate_action:job")
    ctx.ob("C07.c", "FJSPEnv._translate_action:machine=action%num_mas", okM, tr.where, f"machine = {vg.show(M, 3)}", construct="FJSPEnv._translate_action:machine")
    # shift by exactly one, before any use
    st = env.slot("_step")
    ctx.fn(st.fi)
    inpl = [e for e in st.it.events if e.kind == "inplace" and "action" in vg.cells_of(e.data[0]) and nf.strip(e.data[0]).op == "cell0"]
    ok_shift = len(inpl) == 1 and inpl[0].data[1] in ("subtract_", "sub_") and vg.is_const(inpl[0].data[2].args[2], 1)
    first_read_after = True
    if ok_shift:
        noop = [e for e in st.it.events if e.kind == "call-enter"]
        first_read_after = all(e.seq > inpl[0].seq for e in noop)
    ctx.ob("C07.c", "FJSPEnv._step:action-shift", ok_shift and first_read_after, st.where,
           "td['action'].subtract_(1) exactly once, before any helper reads the action (one prepended no-op column)" if ok_shift else f"action shifts found: {[(e.data[1]) for e in inpl]}",
           construct="FJSPEnv._step:action-shift")
    # L2D decoder flattens (j m) too
    try:
        mi = ctx.repo.module_by_path("rl4co/models/zoo/l2d/decoder.py")
        import ast
        pats2 = [n.args[1].value for n in ast.walk(mi.tree) if isinstance(n, ast.Call) and getattr(n.func, "id", "") == "rearrange" and len(n.args) > 1
                 and isinstance(n.args[1], ast.Constant) and isinstance(n.args[1].value, str) and "(" in n.args[1].value]
        okl = False
        for pat in pats2:
            l, r = layout.parse_einops(pat)
            g = layout.groups(r)
            if g and set(g[0]) == {"j", "m"}:
                okl = g[0] == ("j", "m")
        ctx.ob("C07.c", "L2D decoder:logits flatten (j m)", okl, "rl4co/models/zoo/l2d/decoder.py", f"patterns {pats2}", construct="l2d.decoder:flatten")
    except AnalysisError:
        pass


def rule_d(ctx: Ctx):
    env = EnvA(ctx.repo, FJ, "FJSPEnv")
    sl = env.slot("_transit_to_next_time")
    ctx.fn(sl.fi)
    if sl.problems():
        raise AnalysisError(f"_transit_to_next_time: unhandled {sl.problems()[:3]}")
    t = sl.cell("time")
    # time' = where(step_complete, min over machines of (busy_until if busy_until > time else inf), time)
    ok, why = False, "time is not advanced by torch.where(step_complete, next release, time)"
    tv = nf.strip(t)
    if nf._fn(tv) == "torch.where" and len(tv.args) == 4:
        cond, new, old = tv.args[1:]
        keeps = nf.strip(old).op == "cell0" and nf.strip(old).args[1] == "time"
        guarded = "step_complete" in vg.params_of(cond)
        strict = False
        for n in vg.walk(new):
            c = nf.cmpnf(n)
            if c is not None and c[1] in (">0", ">=0"):
                pos, neg = nf.sided_cells(c[0])
                if "busy_until" in pos and "time" in neg:
                    strict = c[1] == ">0"
        has_min = any(n.op == "meth" and n.args[1] == "min" for n in vg.walk(new))
        ok = keeps and guarded and strict and has_min
        why = f"where(step_complete: {guarded}, min over machines: {has_min} of releases strictly later than time: {strict}, else time: {keeps})"
    ctx.ob("C07.d", "FJSPEnv._transit:time-advance", ok, sl.where, why, construct="FJSPEnv._transit_to_next_time:time")
    # release: op_finished = job_in_process & (finish_times[next_op] <= time)
    jip = sl.cell("job_in_process")
    okr, whyr = False, "job_in_process is not cleared under op_finished"
    st = as_store(jip)
    if st is not None and vg.is_const(st.args[2]) and not bool(st.args[2].args[0]):
        leaves = nf.boolwalk(st.args[1], TS.BOOL_CELLS)
        rel = [l for l in leaves if l.cmp() is not None and l.cmp()[1] in (">=0", ">0") and "time" in nf.sided_cells(l.cmp()[0])[0] and "finish_times" in nf.sided_cells(l.cmp()[0])[1]]
        inproc = [l for l in leaves if l.node.op == "cell0" and l.node.args[1] == "job_in_process" and l.sign > 0]
        okr = bool(rel) and all(l.cmp()[1] == ">=0" and l.conj for l in rel) and bool(inproc) and all("next_op" in vg.cells_of(l.node) for l in rel)
        whyr = f"released iff in process and time - finish_times[next_op] >= 0: {[nf.Poly.show(l.cmp()[0], 2) + ' ' + l.cmp()[1] for l in rel]}"
    ctx.ob("C07.d", "FJSPEnv._transit:release", okr, sl.where, whyr, construct="FJSPEnv._transit_to_next_time:release")
    # next_op advances only for finished, not-last ops
    no = nf.strip(sl.cell("next_op"))
    okn, whyn = False, "next_op is not where(op_finished & ~job_finished, next_op + 1, next_op)"
    if nf._fn(no) == "torch.where" and len(no.args) == 4:
        cond, a, b = no.args[1:]
        old = vg.mk("cell0", sl.td.name, "next_op")
        inc = nf.poly(a) - nf.poly(old) == nf.Poly.const(1) and same(b, old)
        leaves = nf.boolwalk(cond, TS.BOOL_CELLS)
        last = [l for l in leaves if l.cmp() is not None and l.cmp()[1] in ("==0", "!=0") and {"next_op", "end_op_per_job"} <= vg.cells_of(l.node)]
        fin = [l for l in leaves if l.cmp() is not None and "finish_times" in vg.cells_of(l.node)]
        # op_finished & ~(op_finished & last)  ==  op_finished & not-last : the not-last literal sits under the inner negation
        okn = inc and bool(last) and all(l.cmp()[1] == "!=0" for l in last) and any(l.conj and l.sign > 0 for l in fin)
        whyn = f"where(finished & next_op != end_op, next_op + 1, next_op): increment {inc}, not-last {bool(last)}, finished {bool(fin)}"
    ctx.ob("C07.d", "FJSPEnv._transit:next-op", okn, sl.where, whyn, construct="FJSPEnv._transit_to_next_time:next_op")
    # job_done' = job_done | (in process & finished-by-now & next_op == end_op): a job completes exactly when its *last* operation is released
    d = sl.cell("done")
    jd = sl.cell("job_done")
    leaves = nf.boolwalk(jd, TS.BOOL_CELLS)
    ops = [tuple(p[1] for p in l.path) for l in leaves]
    old = [l for l, o in zip(leaves, ops) if l.node.op == "cell0" and l.node.args[1] == "job_done"]
    rest = [(l, o) for l, o in zip(leaves, ops) if not (l.node.op == "cell0" and l.node.args[1] == "job_done")]
    okj = len(old) == 1 and old[0].sign > 0 and all(o == "or" for o in ops[leaves.index(old[0])]) and len(ops[leaves.index(old[0])]) >= 1
    lastl = [l for l, o in rest if l.cmp() is not None and {"next_op", "end_op_per_job"} <= vg.cells_of(l.node)]
    finl = [l for l, o in rest if l.cmp() is not None and "finish_times" in vg.cells_of(l.node)]
    inl = [l for l, o in rest if l.node.op == "cell0" and l.node.args[1] == "job_in_process"]
    conj_under_or = all(o and o[0] == "or" and all(x == "and" for x in o[1:]) and l.sign > 0 for l, o in rest)
    okj = okj and len(rest) == 3 and len(lastl) == 1 and lastl[0].cmp()[1] == "==0" and len(finl) == 1 and finl[0].cmp()[1] == ">=0" and len(inl) == 1 and conj_under_or
    ctx.ob("C07.d", "FJSPEnv._transit:job-done", okj, sl.where,
           f"job_done' = job_done | (job_in_process & finish_times[next_op] <= time & next_op == end_op_per_job): literals {[repr(l)[:70] for l in leaves]}, connectives {ops}",
           construct="FJSPEnv._transit_to_next_time:job_done")
    okd = any(n.id == jd.id for n in vg.walk(d)) and jd.op != "cell0"
    ctx.ob("C07.d", "FJSPEnv._transit:done", okd, sl.where, "done = job_done'.all(1)", construct="FJSPEnv._transit_to_next_time:done")


def rule_e(ctx: Ctx):
    env = EnvA(ctx.repo, T.ALL_ENVS["FFSPEnv"], "FFSPEnv")
    sl = env.slot("_step", no_inline=("FFSPEnv._move_to_next_machine", "FFSPEnv._update_step_state"))
    ctx.fn(sl.fi)
    td = sl.td
    name = td.name
    job, mach, tidx = vg.mk("cell0", name, "action"), vg.mk("cell0", name, "machine_idx"), vg.mk("cell0", name, "time_idx")

    def st(key):
        v = as_store(sl.cell(key))
        if v is None:
            raise AnalysisError(f"FFSPEnv._step: {key} not written by an indexed store")
        return v

    sch, mw, jw, jl = st("schedule"), st("machine_wait_step"), st("job_wait_step"), st("job_location")
    i1 = idx_items(sch.args[1])
    ctx.ob("C07.e", "FFSPEnv._step:schedule[b,machine,job]=time", len(i1) == 3 and same(i1[1], mach) and same(i1[2], job) and same(sch.args[2], tidx), sl.where,
           f"schedule[{vg.show(sch.args[1], 3)}] = {vg.show(sch.args[2], 2)}", construct="FFSPEnv._step:schedule")
    jlen = mw.args[2]
    okl = jlen.op == "sub" and nf.strip(jlen.args[0]).op == "cell0" and jlen.args[0].args[1] == "job_duration"
    if okl:
        it = idx_items(jlen.args[1])
        okl = len(it) == 3 and same(it[1], job) and same(it[2], mach)
    ctx.ob("C07.e", "FFSPEnv._step:job_length=job_duration[b,job,machine]", okl, sl.where, f"job_length = {vg.show(jlen, 3)}", construct="FFSPEnv._step:job_length")
    ctx.ob("C07.e", "FFSPEnv._step:wait-counters-same-length", mw.args[2] is jw.args[2], sl.where,
           f"machine_wait_step <- {vg.show(mw.args[2], 2)} ; job_wait_step <- {vg.show(jw.args[2], 2)}", construct="FFSPEnv._step:wait-counters")
    i2, i3 = idx_items(mw.args[1]), idx_items(jw.args[1])
    ctx.ob("C07.e", "FFSPEnv._step:wait-counter-indices", len(i2) == 2 and same(i2[1], mach) and len(i3) == 2 and same(i3[1], job), sl.where,
           f"machine_wait_step[{vg.show(mw.args[1], 2)}], job_wait_step[{vg.show(jw.args[1], 2)}]", construct="FFSPEnv._step:wait-indices")
    inc = nf.poly(jl.args[2]) - nf.poly(vg.mk("sub", jl.args[0], jl.args[1]))
    i4 = idx_items(jl.args[1])
    ctx.ob("C07.e", "FFSPEnv._step:job_location[b,job]+=1", inc == nf.Poly.const(1) and len(i4) == 2 and same(i4[1], job), sl.where,
           f"job_location[{vg.show(jl.args[1], 2)}] += {inc.show(1)}", construct="FFSPEnv._step:job_location")
    # SMTWTP
    env = EnvA(ctx.repo, T.ALL_ENVS["SMTWTPEnv"], "SMTWTPEnv")
    rs, stp = env.slot("_reset"), env.slot("_step")
    ctx.fn(rs.fi)
    ctx.fn(stp.fi)
    am0 = as_store(rs.cell("action_mask"))
    ok0 = am0 is not None and nf.kleene(am0.args[0], lambda n: None) is True and vg.is_const(am0.args[2]) and not bool(am0.args[2].args[0])
    if ok0:
        it = idx_items(am0.args[1])
        ok0 = vg.is_const(it[-1], 0)
    ctx.ob("C07.e", "SMTWTPEnv._reset:dummy-masked", ok0, rs.where, "action_mask = ones; action_mask[:, 0] = 0", construct="SMTWTPEnv._reset:dummy")
    leaves = nf.boolwalk(stp.cell("action_mask"), {"action_mask"})
    ok1 = len(leaves) == 2 and any(l.node.op == "cell0" and l.sign > 0 and l.conj for l in leaves) and any(l.node.op == "selected" and l.sign < 0 and l.conj and "action" in vg.cells_of(l.node) for l in leaves)
    ctx.ob("C07.e", "SMTWTPEnv._step:mask-only-shrinks", ok1, stp.where, "action_mask' = action_mask & ~onehot(action): the dummy node can never re-open", construct="SMTWTPEnv._step:mask")


def rule_f(ctx: Ctx):
    """C07.f the reported makespan is the latest completion time (shared machinery with C03)."""
    from . import C03
    from ..tables import rewards as TR
    before = len(ctx.obligations)
    for cname in ("FJSPEnv", "JSSPEnv"):
        env = EnvA(ctx.repo, T.ALL_ENVS[cname], cname)
        sl = env.slot("_get_reward")
        ctx.fn(sl.fi)
        alts = [(g, v) for g, v in C03.alternatives(sl.fr.ret)]
        step = C03.select_alternative(alts, "stepwise")
        taken = {x[1].id for x in step}
        rest = [(g, v) for g, v in alts if v.id not in taken]
        if not rest:
            raise AnalysisError(f"{cname}._get_reward: makespan alternative not found")
        terms = [t for sel, t in TR.REWARD[cname] if sel is None][0]
        for g, v in rest:
            C03.check_terms(ctx, env, sl, None, v, terms)
    # FFSP: reward written by _step from the recorded schedule
    n0 = len(ctx.obligations)
    C03.incremental(ctx)
    keep = [o for o in ctx.obligations[n0:] if o.instance.startswith("FFSPEnv")]
    del ctx.obligations[n0:]
    ctx.obligations.extend(keep)
    for o in ctx.obligations[before:]:
        o.rule = "C07.f"
    # release compares against the instance's own *updated* clock
    env = EnvA(ctx.repo, FJ, "FJSPEnv")
    sl = env.slot("_transit_to_next_time")
    newtime = sl.cell("time")
    st = as_store(sl.cell("job_in_process"))
    ok, why = False, "release condition not found"
    if st is not None:
        for l in nf.boolwalk(st.args[1], TS.BOOL_CELLS):
            c = l.cmp()
            if c is None or "finish_times" not in vg.cells_of(l.node):
                continue
            pos = c[0].side_atoms(True)
            ok = len(pos) == 1 and pos[0] is nf.norm(newtime)
            why = f"release test {c[0].show(3)} {c[1]}: the clock operand must be the instance's updated td['time'] (identical to the stored value)"
    ctx.ob("C07.d", "FJSPEnv._transit:release-clock", ok, sl.where, why, construct="FJSPEnv._transit_to_next_time:release-clock")


def rule_g(ctx: Ctx):
    """C07.g dispatch of a batched step: rows that chose the wait action (and only those) are sent to the time
    transition, rows that chose a (job, machine) pair (and only unfinished ones) to _make_step, and the rows written
    back are the rows that were selected.  Otherwise a wait is decoded as job -1 / a finished schedule is edited."""
    for cname in ("FJSPEnv", "JSSPEnv"):
        env = EnvA(ctx.repo, T.ALL_ENVS[cname], cname)
        sl = env.slot("_step")
        ctx.fn(sl.fi)
        enters = [e for e in sl.it.events if e.kind == "call-enter"]
        tr = [e for e in enters if e.data.name.endswith("._transit_to_next_time") and not any("loopvar" in vg.show(c, 6) for c in e.conds if isinstance(c, vg.S))]
        mk = [e for e in enters if e.data.name.endswith("._make_step")]
        if tr and len(mk) > 1:
            # several _make_step sites: the scheduling step is applied along different paths (a fast path for `all rows schedule`
            # next to the masked one).  The whole-TensorDict write-back `td[mask] = td_op` is what carries EVERY key the step
            # touches (start and finish times, assignments, ...) back into the batch; per-key copy lists are not accepted.
            ctx.ob("C07.g", f"{cname}._step:one-scheduling-path", False, sl.where,
                   f"_make_step is called on {len(mk)} paths of _step: the rows that schedule must go through ONE masked select / write-back of the whole state",
                   construct=f"{sl.fi.qualname}:several-make-step-paths")
            continue
        if not tr or len(mk) != 1:
            raise AnalysisError(f"{cname}._step: expected one _make_step call and a wait transition ({len(tr)}, {len(mk)})")
        m1 = tr[0].data.locals.get("step_complete")
        tdop = mk[0].data.locals.get("td")
        if not isinstance(m1, vg.S) or not isinstance(tdop, vg.TD) or not getattr(tdop, "parent", None):
            raise AnalysisError(f"{cname}._step: _make_step is not applied to td.masked_select(mask)")
        m2 = tdop.parent[1]
        merges = [e for e in sl.it.events if e.kind == "tdwrite" and e.data[3] == "rowmerge"]
        if not merges:
            raise AnalysisError(f"{cname}._step: no write-back of the stepped rows")
        same_rows = all(nf.strip(e.data[2]).op == "store" and nf.strip(e.data[2]).args[1] is m2 for e in merges)
        ctx.ob("C07.g", f"{cname}._step:write-back-rows", same_rows, sl.where,
               f"td[mask] = td_op uses the mask of td.masked_select(mask) ({len(merges)} cells)", construct=f"{cname}._step:write-back")

        def table(a, d):
            def assume(n):
                if n.op == "cell0" and n.args[1] == "done":
                    return d
                if nf._cmp_raw(n) is not None and vg.cells_of(n) == {"action"}:
                    c = nf.cmpnf(n)
                    if c[1] == "==0":
                        return a
                    if c[1] == "!=0":
                        return not a
                return None
            return nf.kleene(m1, assume), nf.kleene(m2, assume)

        want = {(True, False): (True, False), (False, False): (False, True), (True, True): (None, False)}
        got = {k: table(*k) for k in want}
        bad = [f"wait={k[0]},done={k[1]}: transit {g[0]} / step {g[1]}" for k, g in got.items()
               if (want[k][0] is not None and g[0] is not want[k][0]) or g[1] is not want[k][1]]
        ctx.ob("C07.g", f"{cname}._step:dispatch", not bad, sl.where,
               "wait & unfinished -> time transition only; job chosen & unfinished -> _make_step only; finished -> never _make_step"
               + (f"; violated for {bad}" if bad else ""), construct=f"{cname}._step:dispatch")


def rule_h(ctx: Ctx):
    """C07.h FFSP index tables: `machine_idx` (the global machine an operation is booked on and whose duration column is read)
    comes from tables.get_machine_index, `stage_machine_idx` (the position inside the stage, used by the policy embedding) from
    tables.get_stage_machine_index and `stage_idx` from tables.get_stage_index -- the three getters agree only for flattened
    stages, so a mix-up books stage-1 operations on stage-0 machines in the non-default layout."""
    env = EnvA(ctx.repo, T.ALL_ENVS["FFSPEnv"], "FFSPEnv")
    WANT = [("_move_to_next_machine", "machine_idx", "get_machine_index"), ("pre_step", "machine_idx", "get_machine_index"),
            ("_update_step_state", "stage_machine_idx", "get_stage_machine_index"), ("_update_step_state", "stage_idx", "get_stage_index")]
    for meth, key, getter in WANT:
        sl = env.slot(meth)
        if sl is None:
            raise AnalysisError(f"FFSPEnv.{meth} not found")
        ctx.fn(sl.fi)
        v = sl.cell(key)
        if v is None:
            raise AnalysisError(f"FFSPEnv.{meth} does not write {key}")
        written = []
        v0 = nf.strip(v)
        if v0.op == "loop":
            # loop<init, body>: the body stores into the carried tensor
            b = nf.strip(v0.args[1])
            while b.op == "store":            # the chain of stores into the loop-carried tensor
                written.append(nf.strip(b.args[2]))
                b = nf.strip(b.args[0])
        elif v0.op == "store":
            written.append(nf.strip(v0.args[2]))
        else:
            written.append(v0)
        names = []
        for w in written:
            if w.op == "meth" and vg.show(w.args[0], 3).endswith("tables"):
                names.append(w.args[1])
            else:
                names.append(vg.show(w, 2)[:60])
        ok = bool(names) and all(nm == getter for nm in names)
        ctx.ob("C07.h", f"FFSPEnv.{meth}:{key}<-tables.{getter}", ok, sl.where, f"{key} is written from {names}", construct=f"FFSPEnv.{meth}:{key}:getter")


def rule_k(ctx: Ctx):
    """C07.k FFSP tables and sentinel.  (1) Each getter of IndexTables returns from the table it is named after
    (get_machine_index -> machine_table: GLOBAL machine ids, the row of run_time / schedule; get_stage_machine_index ->
    stage_machine_table: ids inside the stage; get_stage_index -> stage_table).  The two machine tables are one object for the
    default flatten_stages=True, so a mix-up only shows in the multi-stage layout.  (2) `schedule` starts from a sentinel that
    can never win the makespan `max(schedule + job_duration)`: a large negative constant (|c| >= 10^4 >> any run time), not
    the -1 that render() uses as `not scheduled`."""
    import ast
    path = T.ALL_ENVS["FFSPEnv"]
    cls = ctx.repo.get_class(path, "IndexTables")
    WANT = {"get_machine_index": "machine_table", "get_stage_machine_index": "stage_machine_table", "get_stage_index": "stage_table"}
    from ..model import returned_exprs
    for g, tbl in WANT.items():
        fi = cls.methods.get(g)
        if fi is None:
            raise AnalysisError(f"IndexTables.{g} not found")
        ctx.fn(fi)
        rets = list(returned_exprs(fi.node))
        src = set()
        for r in rets:
            for x in ast.walk(r):
                if isinstance(x, ast.Attribute) and isinstance(x.value, ast.Name) and x.value.id == "self" and x.attr.endswith("_table"):
                    src.add(x.attr)
        ok = src == {tbl}
        ctx.ob("C07.k", f"IndexTables.{g}:reads-{tbl}", ok, fi.loc, f"returns from {sorted(src)}; the table this getter stands for: {tbl}", construct=f"IndexTables.{g}:table")
    env = EnvA(ctx.repo, path, "FFSPEnv")
    rs = env.slot("_reset")
    v = rs.cell("schedule") if rs is not None else None
    x = nf.strip(v) if isinstance(v, vg.S) else None
    fill = None
    if x is not None and nf._fn(x) in ("torch.full", "torch.full_like"):
        kws = {a.args[0]: a.args[1] for a in x.args[1:] if isinstance(a, vg.S) and a.op == "kw"}
        f = kws.get("fill_value")
        if f is None:
            pos = [a for a in x.args[1:] if isinstance(a, vg.S) and a.op != "kw"]
            f = pos[1] if len(pos) > 1 else None
        if isinstance(f, vg.S):
            p_ = nf.poly(f)
            if p_.is_const():
                fill = p_.const_term()
    if fill is None:
        raise AnalysisError("FFSPEnv._reset: schedule is not torch.full(..., fill_value=<constant>)")
    ok = fill <= -10 ** 4
    ctx.ob("C07.k", "FFSPEnv._reset:schedule:sentinel-below-every-completion-time", ok, rs.where,
           f"schedule starts at {float(fill):g}; the makespan is max(schedule + job_duration) over ALL (machine, job) pairs" +
           ("" if ok else " -- an unused pair contributes run_time + sentinel, which exceeds the true makespan of short schedules"),
           construct="FFSPEnv._reset:schedule-sentinel")


def rule_j(ctx: Ctx):
    """C07.j lookup tables and time stamps keep their values.  (1) Two attributes bound to ONE tensor (`self.a = self.b`) are two
    names, not two tables: an in-place update through either name (`-=`, `[...] =`, `x_()`) changes both -- FFSP's machine table
    (machine -> column of run_time / schedule) must keep the stage offset that the per-stage embedding index drops.  (2) The
    processing time of the chosen (machine, operation) pair enters finish_times / busy_until as read from the instance: a cast to
    an integer type shortens fractional durations."""
    import ast
    n_alias = 0
    for rel in ("rl4co/envs/scheduling/ffsp/env.py", "rl4co/envs/scheduling/fjsp/env.py", "rl4co/envs/scheduling/jssp/env.py", "rl4co/envs/scheduling/smtwtp/env.py"):
        mi = ctx.repo.module_by_path(rel)
        if mi is None:
            raise AnalysisError(f"{rel} not found")
        for cnode in [n for n in ast.walk(mi.tree) if isinstance(n, ast.ClassDef)]:
            aliases = []
            for n in ast.walk(cnode):
                if isinstance(n, ast.Assign) and len(n.targets) == 1 and all(isinstance(x, ast.Attribute) and isinstance(x.value, ast.Name) and x.value.id == "self" for x in (n.targets[0], n.value)):
                    aliases.append((n.targets[0].attr, n.value.attr, n.lineno))
            for a, b, ln in aliases:
                n_alias += 1
                muts = []
                for n in ast.walk(cnode):
                    tgt = None
                    if isinstance(n, ast.AugAssign):
                        tgt = n.target
                    elif isinstance(n, ast.Assign) and isinstance(n.targets[0], ast.Subscript):
                        tgt = n.targets[0]
                    elif isinstance(n, ast.Call) and isinstance(n.func, ast.Attribute) and n.func.attr.endswith("_") and not n.func.attr.startswith("_"):
                        tgt = n.func.value
                    while isinstance(tgt, ast.Subscript):
                        tgt = tgt.value
                    if isinstance(tgt, ast.Attribute) and isinstance(tgt.value, ast.Name) and tgt.value.id == "self" and tgt.attr in (a, b):
                        muts.append(n.lineno)
                ctx.ob("C07.j", f"{cnode.name}:self.{a}-is-self.{b}:never-updated-in-place", not muts, f"{rel}:{ln}",
                       f"self.{a} and self.{b} are one tensor (line {ln}); in-place updates through either name: {muts or 'none'}" +
                       ("" if not muts else f" -- the update also changes the other table"),
                       construct=f"{cnode.name}:alias:{a}={b}")
    if n_alias < 1:
        raise AnalysisError("no attribute aliases found in the scheduling envs (FFSP IndexTables binds stage_machine_table to machine_table)")
    # (2) processing time of the action
    env = EnvA(ctx.repo, T.ALL_ENVS["FJSPEnv"], "FJSPEnv")
    fi = env.resolve("_make_step")
    ctx.fn(fi)
    from .C01 import TRUNC_METHS
    bad = []
    n_reads = 0
    for n in ast.walk(fi.node):
        if isinstance(n, ast.Subscript) and isinstance(n.value, ast.Subscript) and isinstance(n.value.slice, ast.Constant) and n.value.slice.value == "proc_times":
            n_reads += 1
        if isinstance(n, ast.Subscript) and isinstance(n.value, ast.Call) and isinstance(n.value.func, ast.Attribute) and n.value.func.attr == "get" and n.value.args \
                and isinstance(n.value.args[0], ast.Constant) and n.value.args[0].value == "proc_times":
            n_reads += 1
    for n in ast.walk(fi.node):
        if isinstance(n, ast.Call) and isinstance(n.func, ast.Attribute) and "proc_times" in ast.unparse(n.func.value):
            if n.func.attr in TRUNC_METHS or (n.func.attr in ("to", "type") and any(("int" in ast.unparse(a) or "long" in ast.unparse(a)) for a in list(n.args) + [k.value for k in n.keywords])):
                bad.append(ast.unparse(n)[:80])
    if n_reads < 1:
        raise AnalysisError("FJSPEnv._make_step: read of td['proc_times'][batch, machine, op] not found")
    ctx.ob("C07.j", "FJSPEnv._make_step:processing-time-as-given", not bad, fi.loc,
           "the processing time of the action is used as read from the instance" if not bad else f"{bad[0]}: durations are truncated to integers, operations run shorter than their processing time",
           construct="FJSPEnv._make_step:proc-time-cast")


def run(ctx: Ctx):
    from .C01 import instance_sized_state
    instance_sized_state(ctx, EnvA(ctx.repo, T.ALL_ENVS["SMTWTPEnv"], "SMTWTPEnv"), "C07.i")
    rule_h(ctx)
    rule_j(ctx)
    rule_k(ctx)
    rule_g(ctx)
    rule_a(ctx)
    rule_f(ctx)
    for cname, path in TS.ENVS.items():
        rule_b(ctx, cname, path)
    rule_c(ctx)
    rule_d(ctx)
    rule_e(ctx)
    rule_l(ctx)
    rule_m(ctx)


def rule_l(ctx: Ctx):
    """C07.l every state cell the scheduling environments write in `_step` (and the mask they return) is computed from the
    instance's own row: the per-row readings of the other C07 rules presuppose it.  Batch-axis engine of C04 on SMTWTP, FJSP,
    JSSP and FFSP (`index_fill(-1, action, ...)` writes every instance's chosen job into every row; `.any()` without an axis
    decides the wait action from the whole batch)."""
    from .C04 import batch_rows
    batch_rows(ctx, "C07.l", envs=("SMTWTPEnv", "FJSPEnv", "JSSPEnv", "FFSPEnv"), meths=("_step", "get_action_mask"))


def rule_m(ctx: Ctx):
    """C07.m FFSP index tables: `machine_table` (the machine a decision is scheduled on: schedule rows, durations, wait
    counters) always carries the per-stage offset `k * num_machine`; only `stage_machine_table` (the embedding index) drops it
    when stages are not flattened.  Every assignment to `self.machine_table` in IndexTables.__init__ mentions the offset
    vector built from range(0, num_machine * num_stage, num_machine); no assignment to it sits under a `flatten_stages` test."""
    import ast
    cls = ctx.repo.get_class("rl4co/envs/scheduling/ffsp/env.py", "IndexTables")
    fi = cls.methods.get("__init__")
    if fi is None:
        raise AnalysisError("IndexTables.__init__ not found")
    ctx.fn(fi)
    offs = set()
    for st in ast.walk(fi.node):
        if isinstance(st, ast.Assign) and isinstance(st.targets[0], ast.Name):
            src = ast.unparse(st.value)
            if "range(0" in src.replace(" ", "") .replace("range(0,", "range(0") and "num_stage" in src and "num_machine" in src:
                offs.add(st.targets[0].id)
    if not offs:
        raise AnalysisError("IndexTables.__init__: the stage offset vector (range(0, num_machine * num_stage, num_machine)) was not found")
    sites = []

    def go(body, conds):
        for st in body:
            if isinstance(st, ast.Assign):
                for t in st.targets:
                    if isinstance(t, ast.Attribute) and isinstance(t.value, ast.Name) and t.value.id == "self" and t.attr == "machine_table":
                        names = {x.id for x in ast.walk(st.value) if isinstance(x, ast.Name)}
                        sites.append((st.lineno, bool(names & offs), list(conds)))
            if isinstance(st, ast.If):
                go(st.body, conds + [ast.unparse(st.test)])
                go(st.orelse, conds + ["not " + ast.unparse(st.test)])
    go(fi.node.body, [])
    if not sites:
        raise AnalysisError("IndexTables.__init__: no assignment to self.machine_table")
    bad = [s_ for s_ in sites if not s_[1] or any("flatten_stages" in c for c in s_[2])]
    ctx.ob("C07.m", "IndexTables.__init__:machine_table-keeps-the-stage-offset", not bad, fi.loc,
           f"{len(sites)} assignment(s) to self.machine_table, each adds the stage offset {sorted(offs)} unconditionally: {not bad}" +
           ("" if not bad else f" -- line {bad[0][0]}: without the offset a job of a later stage is scheduled (and timed) on a stage-0 machine when flatten_stages=False"),
           construct="IndexTables.__init__:machine_table:offset")


def run_thorough(ctx: Ctx):
    from ..selftest.corpus import for_prop
    from ..selftest.runner import run_corpus
    run_corpus(ctx, for_prop("C07"))
