"""C20 -- running statistics and stateful baselines: formula clause.

Expression-level comparison (polynomial normal forms; reaching definitions decide WHICH mean
an expression sees) against the stated recurrences:

C20.a  RewardScaler.update (batched Welford):  count' = count + n ;  delta = x - mean ;
       mean' = mean + sum(delta / count') ;  delta2 = x - mean' ;  M2' = M2 + sum(delta * delta2) ; under no_grad
C20.b  RewardScaler.__call__: update is called exactly once before the statistics are read;
       std = sqrt(M2 / (count - 1)) ; 'norm' == (x - mean) / (std + eps) ; 'scale' == x / (std + eps)
C20.c  ExponentialBaseline: v' = beta * v + (1 - beta) * mean(r), first call v' = mean(r), stored
       detached, the returned value is the stored one
C20.d  WarmupBaseline: alpha * v_b + (1 - alpha) * v_wb with the same alpha on values and losses,
       shortcuts at alpha in {0, 1}; alpha <- (epoch + 1) / n_epochs under epoch < n_epochs
"""
from __future__ import annotations

import ast

from .. import nf, vg
from ..core import Ctx
from ..model import AnalysisError

FLOOR = 25
EXPLANATION = (
    "Static expression-level validation of RewardScaler.update/__call__, ExponentialBaseline.eval and WarmupBaseline.eval/"
    "epoch_callback against the stated recurrences, on polynomial normal forms of the def-use value graph (which version of "
    "count/mean each expression reads is decided by reaching definitions). Proves that the formula equals the reference "
    "recurrence for all inputs; that the reference (Welford/Chan batched update) computes mean and sample variance is textbook "
    "and is the trusted base; accumulated float error is not decided."
)
RULE = "one obligation per recurrence equation"
UT = "rl4co/models/rl/common/utils.py"
BL = "rl4co/models/rl/reinforce/baselines.py"


def A(name):
    return vg.mk("selfattr", name)


def sum_arg(s):
    s = nf.strip(s)
    if s.op == "meth" and s.args[1] == "sum" and len(s.args) == 2:
        return s.args[0]
    return None


def run(ctx: Ctx):
    rs = ctx.repo.get_class(UT, "RewardScaler")
    fi = rs.methods["update"]
    ctx.fn(fi)
    it = vg.Interp(ctx.repo, rs)
    fr = it.run_function(fi)
    sa = it.selfattrs
    for k in ("count", "mean", "M2"):
        if k not in sa:
            raise AnalysisError(f"RewardScaler.update does not write self.{k}")
    def unng(v):
        while isinstance(v, vg.S) and v.op == "nograd":
            v = v.args[0]
        return v
    nog = any("no_grad" in ast.unparse(d) or "inference_mode" in ast.unparse(d) for d in fi.node.decorator_list) or \
        (len(fi.node.body) == 1 and isinstance(fi.node.body[0], ast.With) and "no_grad" in ast.unparse(fi.node.body[0].items[0].context_expr))
    ctx.ob("C20.a", "RewardScaler.update:no_grad", nog, fi.loc, "update runs under torch.no_grad()", construct="RewardScaler.update:no-grad")
    count1, mean1, m21 = unng(sa["count"]), unng(sa["mean"]), unng(sa["M2"])
    x = fr.locals.get("batch")
    x = unng(x)
    # count
    dc = nf.poly(count1) - nf.poly(A("count"))
    okc = len(dc.monos()) == 1 and dc.monos()[0][0] == 1 and all(nf._fn(a) == "len" or vg.show(a, 2).startswith("len(") for a, _ in dc.monos()[0][1])
    ctx.ob("C20.a", "RewardScaler.update:count'=count+n", okc, fi.loc, f"count' - count = {dc.show(2)}", construct="RewardScaler.update:count")
    # mean
    dm = nf.poly(mean1) - nf.poly(A("mean"))
    okm, whym = False, f"mean' - mean = {dm.show(3)}"
    if len(dm.monos()) == 1 and dm.monos()[0][0] == 1 and len(dm.monos()[0][1]) == 1:
        inner = sum_arg(dm.monos()[0][1][0][0])
        if inner is not None:
            pin = nf.poly(inner)
            want = (nf.poly(x) - nf.poly(A("mean"))) * nf.Poly.atom(vg.mk("recip", nf.norm(count1)))
            okm = pin == want
            whym = f"mean' - mean = sum({pin.show(2)}); expected sum((x - mean_old) / count_new)"
    ctx.ob("C20.a", "RewardScaler.update:mean'", okm, fi.loc, whym, construct="RewardScaler.update:mean")
    # M2
    d2 = nf.poly(m21) - nf.poly(A("M2"))
    ok2, why2 = False, f"M2' - M2 = {d2.show(3)}"
    if len(d2.monos()) == 1 and d2.monos()[0][0] == 1 and len(d2.monos()[0][1]) == 1:
        inner = sum_arg(d2.monos()[0][1][0][0])
        if inner is not None:
            pin = nf.poly(inner)
            want = (nf.poly(x) - nf.poly(A("mean"))) * (nf.poly(x) - nf.poly(mean1))
            ok2 = pin == want
            why2 = "M2' - M2 = sum((x - mean_old) * (x - mean_new))" + ("" if ok2 else f" expected; found sum({pin.show(2)})")
    ctx.ob("C20.a", "RewardScaler.update:M2'", ok2, fi.loc, why2, construct="RewardScaler.update:M2")
    okx = isinstance(x, vg.S) and x.op == "meth" and x.args[1] in ("reshape", "view", "flatten") and nf.strip(x).op == "param"
    ctx.ob("C20.a", "RewardScaler.update:flatten", okx, fi.loc, "statistics are taken over all elements of the batch (reshape(-1))", construct="RewardScaler.update:flatten")
    # ---------------- __call__
    fc = rs.methods["__call__"]
    ctx.fn(fc)
    it2 = vg.Interp(ctx.repo, rs, inline_policy=lambda f, a: False)
    fr2 = it2.run_function(fc)
    upd = [e for e in it2.events if e.kind == "methcall" and e.data[1] == "update"] + [e for e in it2.events if e.kind == "call-enter" and e.data.func and e.data.func.name == "update"]
    n_upd = len([n for n in ast.walk(fc.node) if isinstance(n, ast.Call) and ast.unparse(n.func) == "self.update"])
    stmts = fc.node.body
    pos_upd = [i for i, s_ in enumerate(stmts) if any(isinstance(n, ast.Call) and ast.unparse(n.func) == "self.update" for n in ast.walk(s_))]
    pos_read = [i for i, s_ in enumerate(stmts) if any(isinstance(n, ast.Attribute) and isinstance(n.value, ast.Name) and n.value.id == "self" and n.attr in ("M2", "count", "mean") for n in ast.walk(s_))]
    oku = n_upd == 1 and len(pos_upd) == 1 and all(i > pos_upd[0] for i in pos_read)
    ctx.ob("C20.b", "RewardScaler.__call__:update-once-before-read", oku, fc.loc, f"self.update(scores) called {n_upd}x at statement {pos_upd}, statistics read at {pos_read}", construct="RewardScaler.__call__:update-order")
    # the scaling factor is the common divisor of the returned alternatives; std is the sqrt inside it (no reliance on local names)
    def _alts_raw(v):
        if isinstance(v, vg.S) and v.op in ("phi", "ifexp"):
            return _alts_raw(v.args[1]) + _alts_raw(v.args[2])
        return [v]
    divs = [a.args[1] for c_, v_ in fr2.returns for a in _alts_raw(v_) if isinstance(a, vg.S) and a.op == "/" and any(n.op == "meth" and n.args[1] == "sqrt" for n in vg.walk(a.args[1]))]
    fac0 = divs[0] if divs and all(d is divs[0] for d in divs) else None
    sq = [n for n in (vg.walk(fac0) if fac0 is not None else []) if n.op == "meth" and n.args[1] == "sqrt"]
    L = {"std": sq[0] if len(sq) == 1 else None, "score_scaling_factor": fac0}
    std = L.get("std")
    oks, whys = False, "std not found"
    if isinstance(std, vg.S):
        s0 = std
        if s0.op == "meth" and s0.args[1] == "sqrt":
            p = nf.poly(s0.args[0])
            want = nf.poly(A("M2")) * nf.Poly.atom(vg.mk("recip", nf.norm(vg.mk("-", A("count"), vg.const(1)))))
            oks = p == want
            whys = f"std = sqrt({p.show(2)}); expected sqrt(M2 / (count - 1))"
    ctx.ob("C20.b", "RewardScaler.__call__:std", oks, fc.loc, whys, construct="RewardScaler.__call__:std")
    fac = L.get("score_scaling_factor")
    dfac = (nf.poly(fac) - nf.poly(std)).monos() if isinstance(fac, vg.S) else []
    okf = len(dfac) == 1 and dfac[0][0] == 1 and len(dfac[0][1]) == 1 and "eps" in vg.show(dfac[0][1][0][0], 5)
    # returned alternatives
    sc = fr2.ret
    alts = []
    def walk_alts(v):
        if isinstance(v, vg.S) and v.op in ("phi", "ifexp"):
            walk_alts(v.args[1]); walk_alts(v.args[2])
        else:
            alts.append(v)
    def galts(v, g=()):
        if isinstance(v, vg.S) and v.op in ("phi", "ifexp"):
            yield from galts(v.args[1], g + ((v.args[0], True),))
            yield from galts(v.args[2], g + ((v.args[0], False),))
        else:
            yield g, v

    def mode_of(g):
        """the scaling mode selected by the guards: `self.scale == 'm'` taken / `!= 'm'` not taken"""
        excluded.clear()
        for t, b in g:
            for n in vg.walk(t):
                if n.op in ("==", "!=") and any(isinstance(a, vg.S) and a.op == "selfattr" and a.args[0] == "scale" for a in n.args):
                    cs = [a.args[0] for a in n.args if isinstance(a, vg.S) and a.op == "const" and isinstance(a.args[0], str)]
                    if cs and (b if n.op == "==" else not b):
                        return cs[0]
                    if cs:
                        excluded.add(cs[0])
        return None

    x2 = vg.mk("param", "scores")
    norm_ok = scale_ok = False
    excluded = set()
    for c, v0 in fr2.returns:
        for g, v in galts(v0):
            if not isinstance(v, vg.S):
                continue
            p = nf.poly(v)
            rf = vg.mk("recip", nf.norm(fac)) if isinstance(fac, vg.S) else None
            if rf is None:
                continue
            m_ = mode_of(g)
            if m_ == "norm" and p == (nf.poly(x2) - nf.poly(A("mean"))) * nf.Poly.atom(rf):
                norm_ok = True
            if (m_ == "scale" or (m_ is None and "norm" in excluded)) and p == nf.poly(x2) * nf.Poly.atom(rf):
                scale_ok = True
    ctx.ob("C20.b", "RewardScaler.__call__:eps", bool(okf), fc.loc, "scaling factor = std + eps", construct="RewardScaler.__call__:eps")
    ctx.ob("C20.b", "RewardScaler.__call__:norm", norm_ok, fc.loc, "'norm' returns (scores - mean) / (std + eps)", construct="RewardScaler.__call__:norm")
    ctx.ob("C20.b", "RewardScaler.__call__:scale", scale_ok, fc.loc, "'scale' returns scores / (std + eps)", construct="RewardScaler.__call__:scale")
    exponential_rules(ctx)
    warmup_rules(ctx)
    warmup_wrap(ctx)
    factory_binding(ctx)
    history_rules(ctx)
    factory_single_warmup(ctx)
    ownership_rules(ctx)
    scaler_lives_with_its_owner(ctx)


def ownership_rules(ctx: Ctx):
    """C20.g who may change the state of the stateful helpers, and how their configuration is stored.
    (1) A numeric setting is stored as given: `self.beta = beta`, or a default substituted for `None` only.  `beta or 0.8` /
        `beta if beta else 0.8` also replace an explicit 0.0 -- the `mean` baseline IS ExponentialBaseline(beta=0.0).
    (2) WarmupBaseline.alpha is written by the constructor (0) and by epoch_callback only: lifecycle hooks that run more than
        once (setup runs on every fit / validate / test and after load_from_checkpoint) must not reset the schedule.
    (3) RewardScaler.update is called by RewardScaler.__call__ only (once per scaled batch): a second caller counts every
        value twice (the mean survives, the sample standard deviation does not)."""
    mod = ctx.repo.module_by_path(BL)
    n_set = 0
    for cnode in [n for n in ast.walk(mod.tree) if isinstance(n, ast.ClassDef)]:
        for f in [n for n in cnode.body if isinstance(n, ast.FunctionDef) and n.name == "__init__"]:
            params = {a.arg for a in f.args.args}
            for st in ast.walk(f):
                if isinstance(st, ast.Assign) and len(st.targets) == 1 and isinstance(st.targets[0], ast.Attribute) and isinstance(st.targets[0].value, ast.Name) and st.targets[0].value.id == "self":
                    v = st.value
                    names = {x.id for x in ast.walk(v) if isinstance(x, ast.Name)} & params
                    if not names:
                        continue
                    n_set += 1
                    falsy = None
                    if isinstance(v, ast.BoolOp) and isinstance(v.op, ast.Or) and isinstance(v.values[0], ast.Name) and v.values[0].id in params:
                        falsy = v
                    if isinstance(v, ast.IfExp) and isinstance(v.test, ast.Name) and v.test.id in params:
                        falsy = v
                    if isinstance(v, ast.IfExp) and isinstance(v.test, ast.UnaryOp) and isinstance(v.test.op, ast.Not) and isinstance(v.test.operand, ast.Name) and v.test.operand.id in params:
                        falsy = v
                    if falsy is not None:
                        ctx.ob("C20.g", f"{cnode.name}.__init__:self.{st.targets[0].attr}:stored-as-given", False, f"{BL}:{st.lineno}",
                               f"`self.{st.targets[0].attr} = {ast.unparse(v)[:50]}` replaces every falsy value, an explicit 0 / 0.0 included, by the default",
                               construct=f"{cnode.name}.__init__:falsy-default:{st.targets[0].attr}")
    ctx.ob("C20.g", "baselines:settings-stored-as-given", True, BL, f"{n_set} constructor assignments from parameters, none through a truthiness test")
    wb = ctx.repo.get_class(BL, "WarmupBaseline")
    writers = sorted({m.name for m in wb.methods.values() for st in ast.walk(m.node)
                      if isinstance(st, (ast.Assign, ast.AugAssign)) and any(isinstance(t, ast.Attribute) and t.attr == "alpha" and isinstance(t.value, ast.Name) and t.value.id == "self"
                                                                            for t in (st.targets if isinstance(st, ast.Assign) else [st.target]))})
    okw = set(writers) == {"__init__", "epoch_callback"}
    ctx.ob("C20.g", "WarmupBaseline.alpha:writers", okw, wb.methods["__init__"].loc,
           f"self.alpha is assigned in {writers}" + ("" if okw else " -- a write outside the constructor and epoch_callback moves the warm-up weight off its schedule"),
           construct="WarmupBaseline.alpha:writers")
    callers = []
    for mi in sorted(ctx.repo.modules.values(), key=lambda m: m.relpath):
        if not mi.relpath.startswith("rl4co/"):
            continue
        for cnode in ast.walk(mi.tree):
            if isinstance(cnode, ast.Call) and isinstance(cnode.func, ast.Attribute) and cnode.func.attr == "update" and "scaler" in ast.unparse(cnode.func.value).lower():
                callers.append(f"{mi.relpath}:{cnode.lineno}")
    rs = ctx.repo.get_class(UT, "RewardScaler")
    own = [c for c in ast.walk(rs.methods["__call__"].node) if isinstance(c, ast.Call) and isinstance(c.func, ast.Attribute) and c.func.attr == "update" and isinstance(c.func.value, ast.Name) and c.func.value.id == "self"]
    ctx.ob("C20.g", "RewardScaler.update:only-called-by-__call__", not callers and len(own) == 1, rs.methods["__call__"].loc,
           f"self.update(...) inside __call__: {len(own)}; calls of <scaler>.update from elsewhere: {callers or 'none'}" +
           ("" if not callers else " -- every value is observed twice: count and M2 double, the sample standard deviation is no longer that of the values seen"),
           construct="RewardScaler.update:callers")


def scaler_lives_with_its_owner(ctx: Ctx):
    """C20.g (4) `all values observed so far`: the object that holds the running count / mean / M2 is created once, by the
    constructor of the module that owns it.  Every `RewardScaler(...)` construction in rl4co, and every assignment to an attribute
    that holds one, lies in an `__init__`: a re-creation in a lifecycle hook (setup / post_setup_hook / on_*_start run on every
    fit / validate / test and after load_from_checkpoint) silently restarts the statistics in the middle of a training history."""
    sites, attrs = [], set()
    mods = [mi for mi in sorted(ctx.repo.modules.values(), key=lambda m: m.relpath) if mi.relpath.startswith("rl4co/")]

    def funcs(tree):
        for cnode in ast.walk(tree):
            if isinstance(cnode, ast.ClassDef):
                for f in cnode.body:
                    if isinstance(f, (ast.FunctionDef, ast.AsyncFunctionDef)):
                        yield cnode, f

    def is_ctor(v):
        return isinstance(v, ast.Call) and ((isinstance(v.func, ast.Name) and v.func.id == "RewardScaler") or (isinstance(v.func, ast.Attribute) and v.func.attr == "RewardScaler"))
    for mi in mods:
        for cnode, f in funcs(mi.tree):
            for st in ast.walk(f):
                if is_ctor(st):
                    sites.append((mi.relpath, cnode.name, f.name, st.lineno, "construction"))
                if isinstance(st, ast.Assign) and is_ctor(st.value):
                    for t in st.targets:
                        if isinstance(t, ast.Attribute) and isinstance(t.value, ast.Name) and t.value.id == "self":
                            attrs.add((cnode.name, t.attr))
    # assignments to a scaler-holding attribute, through self or through another object (`module.advantage_scaler = ...`)
    names = {a for _c, a in attrs}
    for mi in mods:
        for cnode, f in funcs(mi.tree):
            for st in ast.walk(f):
                tg = st.targets if isinstance(st, ast.Assign) else [st.target] if isinstance(st, (ast.AugAssign, ast.AnnAssign)) else []
                for t in tg:
                    if isinstance(t, ast.Attribute) and t.attr in names and not (isinstance(st, ast.Assign) and is_ctor(st.value)):
                        sites.append((mi.relpath, cnode.name, f.name, st.lineno, f"assignment to .{t.attr}"))
                if isinstance(st, ast.Call) and isinstance(st.func, ast.Name) and st.func.id == "setattr" and len(st.args) >= 2 and isinstance(st.args[1], ast.Constant) and st.args[1].value in names:
                    sites.append((mi.relpath, cnode.name, f.name, st.lineno, f"setattr .{st.args[1].value}"))
    if len([x for x in sites if x[4] == "construction"]) < 2:
        from ..model import AnalysisError
        raise AnalysisError("C20.g: fewer than the 2 RewardScaler constructions confirmed by hand (REINFORCE, StepwisePPO)")
    for rel, cn, fn, ln, what in sites:
        ok = fn == "__init__"
        ctx.ob("C20.g", f"{cn}.{fn}:RewardScaler:{what}:constructor-only", ok, f"{rel}:{ln}",
               f"{what} in {cn}.{fn}" + ("" if ok else " -- the running statistics restart whenever this method runs again (a second fit / validate / test, load_from_checkpoint): "
                                         "mean and standard deviation no longer cover all values observed so far"),
               construct=f"{cn}.{fn}:scaler-created-outside-constructor")


def factory_single_warmup(ctx: Ctx):
    """C20.e the factory's "warmup" entry wraps its inner baseline once: the DEFAULT inner name must not be an entry that itself
    returns a WarmupBaseline ("rollout" does) -- nested warm-ups weight the inner baseline with alpha^2 instead of alpha."""
    import ast
    fi = ctx.repo.get_function(BL, "get_reinforce_baseline")
    ctx.fn(fi)
    branches = {}
    for n in ast.walk(fi.node):
        if isinstance(n, ast.If) and isinstance(n.test, ast.Compare) and len(n.test.ops) == 1 and isinstance(n.test.ops[0], ast.Eq):
            sides = [x.value for x in (n.test.left, n.test.comparators[0]) if isinstance(x, ast.Constant) and isinstance(x.value, str)]
            if len(sides) == 1:
                branches[sides[0]] = n
    if "warmup" not in branches:
        raise AnalysisError("get_reinforce_baseline: no branch for 'warmup'")
    dflt = None
    for c in ast.walk(branches["warmup"]):
        if isinstance(c, ast.Call) and isinstance(c.func, ast.Attribute) and c.func.attr in ("get", "pop") and len(c.args) == 2 and isinstance(c.args[0], ast.Constant) and c.args[0].value == "baseline"                 and isinstance(c.args[1], ast.Constant):
            dflt = c.args[1].value
    if dflt is None:
        raise AnalysisError("get_reinforce_baseline: default inner baseline of 'warmup' not found")
    nested = False
    if dflt in branches:
        from ..model import returned_exprs
        nested = any(isinstance(r, ast.Call) and ast.unparse(r.func).split(".")[-1] == "WarmupBaseline" for r in returned_exprs(fi.node, within=branches[dflt].body))
    else:
        reg = [n for n in ast.walk(ctx.repo.module_by_path(BL).tree) if isinstance(n, ast.Dict)]
        for d_ in reg:
            for k_, v_ in zip(d_.keys, d_.values):
                if isinstance(k_, ast.Constant) and k_.value == dflt and ast.unparse(v_).split(".")[-1] == "WarmupBaseline":
                    nested = True
    ctx.ob("C20.e", "get_reinforce_baseline:warmup:inner-default-is-not-a-warm-up", not nested, fi.loc,
           f"default inner baseline of 'warmup' is '{dflt}', which " + ("is itself built as a WarmupBaseline: the factory nests two warm-ups (weight alpha^2 on the inner baseline)" if nested else "is not a warm-up"),
           construct="get_reinforce_baseline:warmup:nested-default")


def history_rules(ctx: Ctx):
    """C20.f `for any training history`: three structural conditions of the stateful objects themselves.
    (1) The running statistics of RewardScaler start as dtype-neutral zeros (Python numbers), so they take the precision of the
        values observed; accumulators created with an explicit float32 / float16 dtype round every later update to it.
    (2) WarmupBaseline owns a moving average of its own: `warmup_baseline` is a freshly constructed ExponentialBaseline on every
        path, never the wrapped baseline (one shared object would be advanced twice per step and combined with itself).
    (3) REINFORCE.on_train_epoch_end advances the baseline after EVERY epoch: the `epoch_callback` call is an unconditional
        top-level statement (the warm-up weight is a function of the epochs completed, including the one the trainer stops at)."""
    import ast
    # (1)
    cls = ctx.repo.get_class(UT, "RewardScaler")
    ini = cls.methods["__init__"]
    ctx.fn(ini)
    for attr in ("mean", "M2"):
        vals = [st.value for st in ast.walk(ini.node) if isinstance(st, ast.Assign) and any(isinstance(t, ast.Attribute) and t.attr == attr and isinstance(t.value, ast.Name) and t.value.id == "self" for t in st.targets)]
        if len(vals) != 1:
            raise AnalysisError(f"RewardScaler.__init__: self.{attr} not initialised exactly once")
        v = vals[0]
        narrow = [k for k in (v.keywords if isinstance(v, ast.Call) else []) if k.arg == "dtype" and any(t in ast.unparse(k.value) for t in ("float32", "float16", "half", "bfloat16", "torch.float)", "int"))
                  or (k.arg == "dtype" and ast.unparse(k.value) in ("torch.float", "float"))]
        zero = (isinstance(v, ast.Constant) and v.value == 0) or (isinstance(v, ast.Call) and ast.unparse(v.func) in ("torch.zeros", "torch.tensor", "torch.zeros_like"))
        ok = zero and not narrow
        ctx.ob("C20.f", f"RewardScaler.__init__:{attr}:dtype-neutral-zero", ok, ini.loc,
               f"self.{attr} = {ast.unparse(v)[:60]}: starts at zero {zero}; pinned to a narrow dtype: {bool(narrow)}" +
               ("" if ok else " -- later in-place updates are rounded to that dtype whatever the precision of the observed values"),
               construct=f"RewardScaler.__init__:{attr}:init")
    # (2)
    wb = ctx.repo.get_class(BL, "WarmupBaseline")
    wi = wb.methods["__init__"]
    ctx.fn(wi)
    it = vg.Interp(ctx.repo, wb, inline_policy=lambda f, a: False)
    it.run_function(wi)
    v = it.selfattrs.get("warmup_baseline")
    alts = []

    def leaves(n):
        if isinstance(n, vg.S) and n.op in ("phi", "ifexp"):
            for a in n.args[1:]:
                leaves(a)
        else:
            alts.append(n)
    leaves(v)
    def _ctor(a):
        if not (isinstance(a, vg.S) and a.op == "call"):
            return False
        f = a.args[0]
        nm = f.args[0] if isinstance(f, vg.S) and f.args and isinstance(f.args[0], str) else (vg.show(f, 1) if isinstance(f, vg.S) else str(f))
        return str(nm).split(":")[-1].split(".")[-1] == "ExponentialBaseline"
    own = bool(alts) and all(_ctor(a) for a in alts)
    ctx.ob("C20.f", "WarmupBaseline.__init__:own-moving-average", own, wi.loc,
           f"self.warmup_baseline on its {len(alts)} path(s): " + ", ".join(vg.show(a, 2)[:40] for a in alts[:3]) + (" -- a constructor call on every path" if own else
           " -- on some path it is an existing object (the wrapped baseline): both sides of the convex combination then share one state"),
           construct="WarmupBaseline.__init__:warmup-baseline-fresh")
    # (3)
    rc = ctx.repo.get_class("rl4co/models/rl/reinforce/reinforce.py", "REINFORCE")
    fe = rc.methods.get("on_train_epoch_end")
    if fe is None:
        raise AnalysisError("REINFORCE.on_train_epoch_end not found")
    ctx.fn(fe)
    calls = [c for c in ast.walk(fe.node) if isinstance(c, ast.Call) and isinstance(c.func, ast.Attribute) and c.func.attr == "epoch_callback"]
    top = [st for st in fe.node.body if isinstance(st, ast.Expr) and isinstance(st.value, ast.Call) and isinstance(st.value.func, ast.Attribute) and st.value.func.attr == "epoch_callback"]
    early = [st for st in fe.node.body[:fe.node.body.index(top[0])] for r in ast.walk(st) if isinstance(r, ast.Return)] if top else []
    ok3 = len(calls) == 1 and len(top) == 1 and not early
    ctx.ob("C20.f", "REINFORCE.on_train_epoch_end:baseline-advanced-every-epoch", ok3, fe.loc,
           f"baseline.epoch_callback is an unconditional statement of the hook: {ok3}" + ("" if ok3 else " -- for the epochs the condition skips, alpha and the challenger test do not advance"),
           construct="REINFORCE.on_train_epoch_end:epoch-callback-unconditional")


def factory_binding(ctx: Ctx):
    """C20.e the configured values reach the parameters that use them: every keyword passed to an in-module baseline / scaler
    constructor names a declared parameter of that constructor.  A constructor that ends in `**kw` accepts any name, so a
    keyword that is not a declared parameter vanishes silently and the object runs with its default (e.g. `exp_beta=` handed to
    WarmupBaseline, whose parameter is `warmup_exp_beta`: the warm-up average keeps beta = 0.8 whatever was configured)."""
    n_calls = 0
    for path in (BL, UT):
        mi = ctx.repo.module_by_path(path)
        classes = {n.name: n for n in mi.tree.body if isinstance(n, ast.ClassDef)}

        def init_of(cname, seen=()):
            c = classes.get(cname)
            if c is None or cname in seen:
                return None
            for b in c.body:
                if isinstance(b, ast.FunctionDef) and b.name == "__init__":
                    return b
            for base in c.bases:
                if isinstance(base, ast.Name):
                    r = init_of(base.id, seen + (cname,))
                    if r is not None:
                        return r
            return None

        for fn in ast.walk(mi.tree):
            if not isinstance(fn, (ast.FunctionDef,)):
                continue
            for call in ast.walk(fn):
                if not (isinstance(call, ast.Call) and isinstance(call.func, ast.Name) and call.func.id in classes):
                    continue
                ini = init_of(call.func.id)
                if ini is None:
                    continue
                a = ini.args
                names = [x.arg for x in a.posonlyargs + a.args][1:] + [x.arg for x in a.kwonlyargs]
                n_pos_max = len([x for x in a.posonlyargs + a.args]) - 1
                swallowed = [k.arg for k in call.keywords if k.arg is not None and k.arg not in names]
                too_many = a.vararg is None and len(call.args) > n_pos_max and not any(isinstance(x, ast.Starred) for x in call.args)
                n_calls += 1
                ok = not swallowed and not too_many
                ctx.ob("C20.e", f"{fn.name}:{call.func.id}(...):keywords-bind", ok, f"{path}:{call.lineno}",
                       f"{call.func.id}({', '.join([ast.unparse(x)[:20] for x in call.args] + [k.arg + '=' if k.arg else '**' for k in call.keywords])}) binds to declared parameters {names}"
                       if ok else f"keyword(s) {swallowed} are not parameters of {call.func.id}.__init__ ({names}) and are swallowed by **{a.kwarg.arg if a.kwarg else 'kw'}: the configured value never reaches the object",
                       construct=f"{fn.name}:{call.func.id}:keywords:" + ",".join(swallowed))
    if n_calls < 3:
        raise AnalysisError(f"only {n_calls} in-module constructor calls found in the baseline / scaler modules (floor 3)")


def exponential_rules(ctx: Ctx):
    # ---------------- ExponentialBaseline
    eb = ctx.repo.get_class(BL, "ExponentialBaseline")
    fe = eb.methods["eval"]
    ctx.fn(fe)
    it3 = vg.Interp(ctx.repo, eb)
    fr3 = it3.run_function(fe)
    v1 = it3.selfattrs.get("v")
    oke, whye = False, "self.v not assigned"
    if isinstance(v1, vg.S) and v1.op == "meth" and v1.args[1] == "detach":
        body = v1.args[0]
        if body.op in ("phi", "ifexp"):
            test, first, rec = body.args
            mean_r = vg.mk("meth", vg.mk("param", "reward"), "mean")
            first_ok = nf.poly(first) == nf.Poly.atom(nf.norm(_find_mean(first)))  and _find_mean(first) is not None
            pr = nf.poly(rec)
            m = _find_mean(rec)
            want = nf.poly(A("beta")) * nf.poly(A("v")) + (nf.Poly.const(1) - nf.poly(A("beta"))) * nf.Poly.atom(nf.norm(m)) if m is not None else None
            rec_ok = want is not None and pr == want
            test_ok = "self.v" in vg.show(test, 3) and "None" in vg.show(test, 3)
            oke = first_ok and rec_ok and test_ok
            whye = f"v' = mean(r) on the first call: {first_ok}; v' = beta*v + (1-beta)*mean(r): {rec_ok} ({pr.show(2)})"
    ctx.ob("C20.c", "ExponentialBaseline.eval:recurrence", oke, fe.loc, whye, construct="ExponentialBaseline.eval:recurrence")
    r = fr3.ret
    first = r.items[0] if isinstance(r, vg.Tup) else (r.args[0] if isinstance(r, vg.S) and r.op == "tuple" else None)
    ctx.ob("C20.c", "ExponentialBaseline.eval:returns-stored", first is v1, fe.loc, "the returned baseline is the stored, detached self.v", construct="ExponentialBaseline.eval:return")


def warmup_rules(ctx: Ctx):
    # ---------------- WarmupBaseline
    wb = ctx.repo.get_class(BL, "WarmupBaseline")
    fw = wb.methods["eval"]
    ctx.fn(fw)
    it4 = vg.Interp(ctx.repo, wb, inline_policy=lambda f, a: False)
    fr4 = it4.run_function(fw)
    rets = fr4.returns
    okw, whyw = False, f"{len(rets)} return paths"
    if len(rets) == 3:
        (c1, r1), (c2, r2), (c3, r3) = rets
        s1, s2 = it4.sym(r1), it4.sym(r2)
        sh1 = s1.op == "meth" and s1.args[1] == "eval" and s1.args[0].op == "selfattr" and s1.args[0].args[0] == "baseline" and _alpha_eq(c1, 1)
        sh0 = s2.op == "meth" and s2.args[1] == "eval" and s2.args[0].op == "selfattr" and s2.args[0].args[0] == "warmup_baseline" and _alpha_eq(c2, 0)
        items = r3.items if isinstance(r3, vg.Tup) else list(it4.sym(r3).args)
        comb = []
        for i, itx in enumerate(items):
            p = nf.poly(it4.sym(itx))
            b_atoms = [a for a in p.atoms() if a.op == "sub" and vg.is_const(a.args[1], i) and "self.baseline" in vg.show(a, 4)]
            w_atoms = [a for a in p.atoms() if a.op == "sub" and vg.is_const(a.args[1], i) and "warmup_baseline" in vg.show(a, 4)]
            if len(b_atoms) == 1 and len(w_atoms) == 1:
                want = nf.poly(A("alpha")) * nf.Poly.atom(b_atoms[0]) + (nf.Poly.const(1) - nf.poly(A("alpha"))) * nf.Poly.atom(w_atoms[0])
                comb.append(p == want)
            else:
                comb.append(False)
        okw = sh1 and sh0 and len(comb) == 2 and all(comb)
        whyw = f"alpha == 1 -> baseline: {sh1}; alpha == 0 -> warm-up baseline: {sh0}; alpha*b + (1-alpha)*wb for value and loss: {comb}"
    ctx.ob("C20.d", "WarmupBaseline.eval:convex-combination", okw, fw.loc, whyw, construct="WarmupBaseline.eval:combination")
    fcb = wb.methods["epoch_callback"]
    ctx.fn(fcb)
    it5 = vg.Interp(ctx.repo, wb, inline_policy=lambda f, a: False)
    it5.run_function(fcb)
    al = it5.selfattrs.get("alpha")
    oka, whya = False, "self.alpha is not assigned conditionally"

    def unfloat(x):
        x = nf.strip(x)
        while isinstance(x, vg.S) and nf._fn(x) == "float" and len(x.args) == 2:
            x = nf.strip(x.args[1])
        return x

    if isinstance(al, vg.S) and al.op in ("phi", "ifexp"):
        t, new_, keep = al.args
        r_ = nf.cmpnf(t)
        n_ep = nf.poly(A("n_epochs"))
        keep_ok = keep.op == "selfattr" and keep.args[0] == "alpha"
        if r_ is not None and keep_ok:
            d_, op_ = r_
            ep = n_ep - d_          # epoch < n_epochs  <=>  n_epochs - epoch > 0
            t_ok = op_ == ">0" and len(ep.atoms()) == 1 and "epoch" in vg.show(ep.atoms()[0], 3) and ep == nf.Poly.atom(ep.atoms()[0])
            v = nf.strip(new_)
            v_ok = isinstance(v, vg.S) and v.op == "/" and nf.poly(v.args[0]) == ep + nf.Poly.const(1) and unfloat(v.args[1]) is A("n_epochs")
            oka = t_ok and v_ok
            whya = f"updated iff epoch < n_epochs: {t_ok}; alpha' = (epoch + 1) / n_epochs: {v_ok}; otherwise kept: {keep_ok}"
    ctx.ob("C20.d", "WarmupBaseline.epoch_callback:alpha", oka, fcb.loc, "alpha <- (epoch + 1) / n_epochs while epoch < n_epochs -- " + whya, construct="WarmupBaseline.epoch_callback:alpha")
    init = wb.methods["__init__"]
    ctx.fn(init)
    it6 = vg.Interp(ctx.repo, wb, inline_policy=lambda f, a: False)
    it6.run_function(init)
    a0 = it6.selfattrs.get("alpha")
    n0 = it6.selfattrs.get("n_epochs")
    pos = False
    for e in it6.events:
        if e.kind == "assert" and not e.conds and isinstance(e.data, vg.S):
            r_ = nf.cmpnf(e.data)
            if r_ is not None and isinstance(n0, vg.S):
                d_, op_ = r_
                pos = pos or (op_ == ">0" and d_ == nf.poly(n0)) or (op_ == ">=0" and d_ == nf.poly(n0) - nf.Poly.const(1))
    ctx.ob("C20.d", "WarmupBaseline.__init__:alpha0", vg.is_const(a0, 0) and pos, init.loc, f"alpha starts at 0: {vg.is_const(a0, 0)}; n_epochs > 0 is asserted: {pos}", construct="WarmupBaseline.__init__:alpha")


def warmup_wrap(ctx: Ctx):
    """C20.d: while alpha == 0 the warm-up (exponential) baseline applies alone, so the training set must not be wrapped with
    the inner baseline's per-instance values (REINFORCE would use them as bl_val instead of the mixture): wrap_dataset delegates
    to the inner baseline iff alpha > 0."""
    wb = ctx.repo.get_class(BL, "WarmupBaseline")
    fw = wb.methods["wrap_dataset"]
    ctx.fn(fw)
    it = vg.Interp(ctx.repo, wb, inline_policy=lambda f, a: False)
    fr = it.run_function(fw)
    ok, why = False, f"{len(fr.returns)} return paths"
    alts = []
    for c, v in fr.returns:
        v = it.sym(v)
        who = v.args[0].args[0] if isinstance(v, vg.S) and v.op == "meth" and v.args[1] == "wrap_dataset" and v.args[0].op == "selfattr" else None
        alts.append((c, who))
    inner = [c for c, w in alts if w == "baseline"]
    warm = [c for c, w in alts if w == "warmup_baseline"]
    if len(inner) == 1 and len(warm) == 1 and isinstance(inner[0], vg.S):
        r_ = nf.cmpnf(inner[0])
        one = nf.Poly.const(1)
        al_ = nf.poly(A("alpha"))
        g_ok = r_ is not None and ((r_[1] == ">0" and r_[0] == al_) or (r_[1] == "==0" and r_[0] in (al_ - one, one - al_)) or (r_[1] == ">=0" and r_[0] == al_ - one))
        ok = g_ok
        why = f"inner baseline's wrap_dataset only for alpha > 0 (strict) or alpha == 1: {g_ok}; never at alpha == 0, where the warm-up baseline applies alone"
    ctx.ob("C20.d", "WarmupBaseline.wrap_dataset:guard", ok, fw.loc, why, construct="WarmupBaseline.wrap_dataset:guard")
    # ... and while 0 < alpha < 1 the MIXTURE must reach the loss.  Two cooperating sites: REINFORCE.calculate_loss takes
    # `bl_val = extra` whenever the batch carries one and skips baseline.eval; so the training set may carry the inner baseline's
    # values only once that baseline applies alone (alpha == 1).  Reference: the property's "convex combination whose weight moves
    # from zero to one", not today's guard.
    rf = ctx.repo.get_function("rl4co/models/rl/reinforce/reinforce.py", "REINFORCE.calculate_loss")
    if rf is None:
        raise AnalysisError("REINFORCE.calculate_loss not found")
    ctx.fn(rf)
    def _is_bypass(n):
        # `<baseline>.eval(..) if <extra> is None else (<extra>, 0)` in either orientation of the conditional expression
        for tup, other in ((n.orelse, n.body), (n.body, n.orelse)):
            if isinstance(tup, ast.Tuple) and tup.elts and isinstance(tup.elts[0], ast.Name) and tup.elts[0].id in {x.id for x in ast.walk(n.test) if isinstance(x, ast.Name)} \
                    and any(isinstance(c, ast.Call) and isinstance(c.func, ast.Attribute) and c.func.attr == "eval" for c in ast.walk(other)):
                return True
        return False
    bypass = [n for n in ast.walk(rf.node) if isinstance(n, ast.IfExp) and _is_bypass(n)]
    # the statement form: `if extra is None: bl_val, bl_loss = self.baseline.eval(..) else: bl_val, bl_loss = extra, 0`
    for n in ast.walk(rf.node):
        if isinstance(n, ast.If) and n.orelse:
            has_eval = [any(isinstance(c, ast.Call) and isinstance(c.func, ast.Attribute) and c.func.attr == "eval" for st in blk for c in ast.walk(st)) for blk in (n.body, n.orelse)]
            if has_eval.count(True) == 1 and any(isinstance(c, ast.Constant) and c.value is None for c in ast.walk(n.test)):
                bypass.append(n)
    only_alone = False
    if len(inner) == 1 and isinstance(inner[0], vg.S):
        r_ = nf.cmpnf(inner[0])
        only_alone = r_ is not None and ((r_[1] == "==0" and r_[0] in (nf.poly(A("alpha")) - nf.Poly.const(1), nf.Poly.const(1) - nf.poly(A("alpha"))))
                                         or (r_[1] == ">=0" and r_[0] == nf.poly(A("alpha")) - nf.Poly.const(1)))
    okm = only_alone or not bypass
    ctx.ob("C20.d", "WarmupBaseline.wrap_dataset:mixture-reaches-the-loss", okm, fw.loc,
           "the training set carries the inner baseline's values only when alpha == 1" if only_alone else
           ("REINFORCE.calculate_loss always evaluates the baseline" if not bypass else
            f"wrap_dataset delegates to the inner baseline for every alpha > 0 and REINFORCE.calculate_loss (line {bypass[0].lineno}) takes `extra` as the baseline value without calling "
            "WarmupBaseline.eval: for 0 < alpha < 1 (n_epochs >= 2, an inner baseline that wraps the dataset) the inner baseline enters at weight 1 and the warm-up baseline at weight 0 "
            "instead of alpha and 1 - alpha"),
           construct="WarmupBaseline.wrap_dataset:mixture-bypassed-by-extra")


def _alpha_eq(c, k):
    """path condition `c` ends in self.alpha == k (possibly conjoined with the negation of earlier tests)"""
    if not isinstance(c, vg.S):
        return False
    conj = [c]
    while any(x.op == "and" for x in conj):
        conj = [y for x in conj for y in (x.args if x.op == "and" else [x])]
    for x in conj:
        if x.op == "==" and any(isinstance(a, vg.S) and a.op == "selfattr" and a.args[0] == "alpha" for a in x.args) and any(vg.is_const(a, k) for a in x.args):
            return True
    return False


def _find_mean(s):
    for n in vg.walk(s):
        if n.op == "meth" and n.args[1] == "mean" and n.args[0].op == "param" and n.args[0].args[0] == "reward" and len(n.args) == 2:
            return n
    return None


def run_thorough(ctx: Ctx):
    from ..selftest.corpus import for_prop
    from ..selftest.runner import run_corpus
    run_corpus(ctx, for_prop("C20"))
