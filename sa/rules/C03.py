"""C03 -- the reported reward is the true objective.  Decided clauses:

C03.a  inputs: each reward term reads the cells of its reference row, depends on the action
       sequence where it must, never reads a forbidden (mutated) cell
C03.b  closure / orientation: depot first in the summed sequence; tour length = cyclic shift
       by one over the sequence axis, norm over the coordinate axis, sum over the sequence;
       ATSP arcs a_t -> a_(t+1); MTVRP zeroes exactly the legs arriving at the depot of open routes
C03.c  sign and terms: the polynomial normal form of the return consists of exactly the
       reference terms with their signs
C03.d  incremental objectives (mTSP, MDCPDP, FFSP, FJSP) are written from the same step's
       quantities
"""
from __future__ import annotations

from .. import nf, vg
from ..core import Ctx
from ..envs import EnvA
from ..model import AnalysisError
from ..tables import routing as T
from ..tables import rewards as TR

FLOOR = 133
EXPLANATION = (
    "Static analysis of all _get_reward implementations (21 env classes, every Python-level mode) and of the step-side "
    "accumulators they read: the return value's polynomial normal form must consist of exactly the reference objective's "
    "signed terms, each reading the right instance cells/the action sequence and no mutated cell; structural predicates for "
    "tour closure (depot first, cyclic shift over the sequence axis), ATSP arc orientation, MTVRP open-route legs, tardiness "
    "(cumsum, clamp, weight), makespan (max over non-padded ops); get_tour_length/get_distance helper definitions. "
    "Decides the formula shape for all inputs; numeric equality up to rounding is not decided."
)
RULE = "one obligation per (env, mode, reference term / structural predicate)"

OPS = "rl4co.utils.ops:"


def alternatives(s, guards=()):
    if isinstance(s, vg.S) and s.op in ("phi", "ifexp"):
        yield from alternatives(s.args[1], guards + ((s.args[0], True),))
        yield from alternatives(s.args[2], guards + ((s.args[0], False),))
    elif isinstance(s, vg.S) and s.op == "neg" and isinstance(s.args[0], vg.S) and s.args[0].op in ("phi", "ifexp"):
        for g, v in alternatives(s.args[0], guards):
            yield g, vg.mk("neg", v)
    else:
        yield guards, s


def guard_consts(guards):
    """(mode constant, effective truth): `x == 'c'` taken or `x != 'c'` not taken select mode c"""
    out = []
    for t, b in guards:
        for n in vg.walk(t):
            if n.op in ("==", "!=") and any(isinstance(a, vg.S) and a.op == "const" and isinstance(a.args[0], str) for a in n.args):
                c = [a.args[0] for a in n.args if isinstance(a, vg.S) and a.op == "const" and isinstance(a.args[0], str)][0]
                out.append((c, b if n.op == "==" else (not b)))
            if n.op == "selfattr":
                out.append(("self." + n.args[0], b))
    return out


def is_trivial(guards, val) -> bool:
    # the degenerate branch `actions.shape[-1] == 1` (every tour went straight back to the depot)
    for t, b in guards:
        if not b:
            continue
        for n in vg.walk(t):
            if n.op == "==" and len(n.args) == 2:
                for x, y in ((n.args[0], n.args[1]), (n.args[1], n.args[0])):
                    d = nf.dim_of(x)
                    if d is not None and vg.is_const(y, 1) and d[0].op == "param" and d[0].args[0] == "actions":
                        return True
    return False


def find_calls(s, fq):
    return [n for n in vg.walk(s) if n.op == "call" and isinstance(n.args[0], vg.S) and n.args[0].op == "func" and n.args[0].args[0] == fq]


def kwarg(n, name, pos=None):
    for a in n.args[1:]:
        if isinstance(a, vg.S) and a.op == "kw" and a.args[0] == name:
            return a.args[1]
    if pos is not None:
        plain = [a for a in n.args[1:] if not (isinstance(a, vg.S) and a.op == "kw")]
        if pos < len(plain):
            return plain[pos]
    return None


def depends_on_actions(s) -> bool:
    return "actions" in vg.params_of(s)


# --------------------------------------------------------------------------- predicates


def pred_closed_tour(atoms_, need_depot):
    calls = []
    for a in atoms_:
        calls += find_calls(a, OPS + "get_tour_length")
    if len(calls) != 1:
        return False, f"expected one get_tour_length call, found {len(calls)}"
    arg = nf.strip(calls[0].args[1])
    if not need_depot:
        ok = "locs" in vg.cells_of(arg) and depends_on_actions(arg)
        return ok, "tour over gather(locs, actions)" if ok else "tour argument does not gather locs by actions"
    fn = nf._fn(arg)
    if fn not in ("torch.cat", "torch.concat"):
        return False, "the summed sequence is not cat([depot, gathered locations]): the depot leg is missing"
    items = nf._seq_items(arg.args[1])
    if not items or len(items) < 2:
        return False, "cat without depot item"
    dim = kwarg(arg, "dim", 1)
    if dim is None or not (vg.is_const(dim, 1) or vg.is_const(dim, -2)):
        return False, f"concatenation along {vg.show(dim, 2) if dim is not None else '?'}, expected the sequence axis (1 / -2)"
    first, rest = items[0], items[1:]
    if depends_on_actions(first) or not ({"locs", "depot"} & vg.cells_of(first)):
        return False, "first item of the sequence is not the depot location"
    if not any(depends_on_actions(x) and "locs" in vg.cells_of(x) for x in rest):
        return False, "no gathered customer locations in the sequence"
    return True, "cat([depot, gather(locs, actions)]) on the sequence axis"


def roll_shift(n):
    """torch.roll(x, k, dims=d) / x.roll(k, d) -> (x, k, d)"""
    n = nf.strip(n)
    if nf._fn(n) == "torch.roll":
        x = n.args[1]
        k = kwarg(n, "shifts", 1)
        d = kwarg(n, "dims", 2)
        return x, k, d
    if n.op == "meth" and n.args[1] == "roll":
        k = kwarg(vg.mk("call", *n.args[1:]), "shifts", 0)
        plain = [a for a in n.args[2:] if not (isinstance(a, vg.S) and a.op == "kw")]
        return n.args[0], (plain[0] if plain else None), (plain[1] if len(plain) > 1 else kwarg(vg.mk("call", *n.args[1:]), "dims"))
    return None


def cval(s):
    return s.args[0] if isinstance(s, vg.S) and s.op == "const" else None


def pred_atsp(atoms_):
    for a in atoms_:
        for n in vg.walk(a):
            if n.op == "sub" and nf.strip(n.args[0]).op == "cell0" and nf.strip(n.args[0]).args[1] == "cost_matrix" and isinstance(n.args[1], vg.S) and n.args[1].op == "tuple" and len(n.args[1].args) == 3:
                _, x, y = n.args[1].args
                rx, ry = roll_shift(x), roll_shift(y)
                if ry is not None and rx is None:
                    base, k, d = ry
                    ok = nf.strip(base) is nf.strip(x) and cval(k) == -1 and cval(d) in (1, -1)
                    return ok, f"matrix[b, a, roll(a, {cval(k)}, dims={cval(d)})]" + ("" if ok else ": arcs must go a_t -> a_(t+1) (roll by -1 on the sequence axis in the target slot)")
                if rx is not None and ry is None:
                    base, k, d = rx
                    ok = nf.strip(base) is nf.strip(y) and cval(k) == 1 and cval(d) in (1, -1)
                    return ok, f"matrix[b, roll(a, {cval(k)}), a]" + ("" if ok else ": arcs must go a_(t-1) -> a_t (roll by +1 in the source slot)")
                return False, "cannot identify source/target roles of the matrix index"
    return False, "no cost_matrix[b, src, tgt] indexing found"


def pred_mtvrp(atoms_):
    # legs (go_from[i], go_to[i]) with go_to = roll(go_from, -1); the zeroed legs are those with go_to == 0 on open routes
    rolls = []
    for a in atoms_:
        for n in vg.walk(a):
            r = roll_shift(n)
            if r is not None and depends_on_actions(n):
                rolls.append((n, r))
    if not rolls:
        return False, "no roll of the visiting sequence"
    node, (base, k, d) = rolls[0]
    if cval(k) != -1 or cval(d) not in (1, -1):
        return False, f"sequence rolled by {cval(k)} on dims {cval(d)}: go_to must be roll(go_from, -1) on the sequence axis"
    b = nf.strip(base)
    if nf._fn(b) not in ("torch.cat", "torch.concat"):
        return False, "go_from is not cat([depot, actions])"
    items = nf._seq_items(b.args[1])
    if not items or depends_on_actions(items[0]) or not depends_on_actions(items[-1]):
        return False, "the sequence does not start with the depot index"
    # the factor that zeroes legs: ~((X == 0) & open_route) with X the rolled sequence
    ok = False
    target = nf.norm(node)
    for a in atoms_:
        for n in vg.walk(a):
            c = nf.cmpnf(n)
            if c is not None and c[1] == "==0":
                ats = c[0].atoms()
                if len(ats) == 1 and ats[0] is target and c[0].const_term() == 0:
                    ok = True
    return ok, "legs arriving at the depot (go_to == 0) of open routes are zeroed" if ok else "the zeroed legs are not selected by go_to == 0 (the later endpoint of each leg)"


def pred_sum_last(atoms_):
    for a in atoms_:
        a1 = nf.strip(a)
        if (a1.op == "meth" and a1.args[1] == "sum") or nf._fn(a1) == "torch.sum":
            d = a1.args[2] if a1.op == "meth" and len(a1.args) > 2 else kwarg(a1, "dim", 1)
            if isinstance(d, vg.S) and d.op == "kw":
                d = d.args[1]
            ok = cval(d) in (-1, 1)
            return ok, f"sum over dim {cval(d)}"
    return False, "no sum over the sequence/item axis"


def pred_weighted_legs(atoms_):
    ok_roll = False
    for a in atoms_:
        for n in vg.walk(a):
            r = roll_shift(n)
            if r is not None:
                base, k, d = r
                if cval(k) in (-1, 1) and cval(d) == -2:
                    ok_roll = True
                    bb = nf.strip(base)
                    if nf._fn(bb) in ("torch.cat", "torch.concat"):
                        items = nf._seq_items(bb.args[1])
                        if items and not depends_on_actions(items[0]):
                            return True, "weighted legs over cat([depot, tour]) with cyclic shift on the sequence axis"
    return False, "legs are not built from cat([depot, tour]) with a cyclic shift on dim -2" if ok_roll else "no cyclic shift by one on the sequence axis"


def pred_tardiness(atoms_):
    has_cumsum = has_clamp = False
    for a in atoms_:
        for n in vg.walk(a):
            if nf._fn(n) == "torch.cumsum" or (n.op == "meth" and n.args[1] == "cumsum"):
                d = kwarg(n, "dim", 1) if n.op == "call" else (n.args[2] if len(n.args) > 2 else None)
                if isinstance(d, vg.S) and d.op == "kw":
                    d = d.args[1]
                src = n.args[1] if n.op == "call" else n.args[0]
                if cval(d) in (1, -1) and depends_on_actions(src) and "job_process_time" in vg.cells_of(src):
                    has_cumsum = True
            if n.op == "store" and vg.is_const(n.args[2], 0):
                c = nf.cmpnf(n.args[1]) if isinstance(n.args[1], vg.S) else None
                if c is not None and c[1] == ">0":
                    # clamp of negative tardiness: condition `x < 0` i.e. -x > 0 with x = completion - due
                    pos, neg = nf.sided_cells(c[0])
                    if "job_due_time" in pos and "job_process_time" in neg:
                        has_clamp = True
            if (n.op == "meth" and n.args[1] in ("clamp", "clamp_min", "clip", "relu")) or nf._fn(n) in ("torch.clamp", "torch.relu", "torch.clamp_min"):
                has_clamp = True
    if not has_cumsum:
        return False, "completion times are not the cumulative sum of the *ordered* processing times along the sequence"
    if not has_clamp:
        return False, "tardiness is not clamped at 0 (early jobs would earn negative tardiness)"
    return True, "sum w * max(0, cumsum(p_ordered) - d_ordered)"


def pred_max_finish(atoms_):
    for a in atoms_:
        for n in vg.walk(a):
            if n.op == "meth" and n.args[1] == "max":
                b = nf.strip(n.args[0])
                if b.op == "meth" and b.args[1] == "masked_fill" and "pad_mask" in vg.cells_of(b.args[2]) and "finish_times" in vg.cells_of(b.args[0]):
                    neg_inf = is_neg_inf(b.args[3])
                    return neg_inf, "max over finish_times with padded ops filled by -inf" if neg_inf else "padded operations are not filled with -inf before the max"
    return False, "makespan is not max(finish_times masked by pad_mask)"


def is_neg_inf(s) -> bool:
    p = nf.poly(s)
    if len(p.terms) != 1:
        return False
    (c, fs), = p.monos()
    if len(fs) != 1:
        return False
    a = fs[0][0]
    if a.op in ("global", "ext") and a.args[0].split(".")[-1] in ("inf", "Inf", "infty"):
        return c < 0
    if a.op == "call" and isinstance(a.args[0], vg.S) and a.args[0].args[0] == "float" and len(a.args) == 2 and a.args[1].op == "const":
        v = str(a.args[1].args[0]).lower()
        return (v == "-inf" and c > 0) or (v in ("inf", "+inf") and c < 0)
    return False


def pred_min_then_sum(atoms_):
    for a in atoms_:
        chain = []
        n = nf.strip(a)
        while n.op in ("meth", "attr"):
            chain.append(n.args[1])
            n = nf.strip(n.args[0])
        if "min" in chain and "sum" in chain and chain.index("sum") < chain.index("min"):
            return True, "min over chosen facilities, then sum over locations"
    return False, "not sum(min over chosen facilities)"


def pred_mdcpdp(atoms_):
    txt = " ".join(vg.show(a, 6) for a in atoms_)
    ok = "torch.max" in txt and "torch.sum" in txt
    return ok, "max / sum over per-depot lengths by mode" if ok else "mode reductions (max for minmax, sum for minsum) not found"


def pred_reduce_last(which):
    def f(atoms_):
        for a in atoms_:
            for n in vg.walk(a):
                fn = nf._fn(n)
                if fn == f"torch.{which}" or (n.op == "meth" and n.args[1] == which):
                    args = n.args[2:] if n.op == "call" else n.args[2:]
                    dims = [x.args[1] for x in n.args[1:] if isinstance(x, vg.S) and x.op == "kw" and x.args[0] == "dim"] + [x for x in args if isinstance(x, vg.S) and x.op == "const"]
                    ok = any(vg.is_const(d, -1) for d in dims)
                    return ok, f"{which} over the per-depot axis (dim -1): {ok}"
        return False, f"no {which} over the per-depot lengths"
    return f


PREDS = {
    "closed-tour": lambda at: pred_closed_tour(at, False),
    "closed-tour-from-depot": lambda at: pred_closed_tour(at, True),
    "atsp-orientation": pred_atsp,
    "mtvrp-open-route": pred_mtvrp,
    "sum-last": pred_sum_last,
    "weighted-legs-from-depot": pred_weighted_legs,
    "weighted-tardiness": pred_tardiness,
    "max-finish": pred_max_finish,
    "min-then-sum": pred_min_then_sum,
    "mdcpdp-modes": pred_mdcpdp,
    "max-last": pred_reduce_last("max"),
    "sumfn-last": pred_reduce_last("sum"),
    "cell": lambda at: (True, "reads the accumulated cell"),
}


def mono_info(fs):
    cells, attrs, acts = set(), set(), False
    for a, _ in fs:
        cells |= vg.cells_of(a)
        attrs |= vg.selfattrs_of(a)
        acts = acts or depends_on_actions(a)
    return cells, attrs, acts


def check_terms(ctx: Ctx, env: EnvA, sl, mode, val, terms):
    p = nf.poly(val)
    monos = p.monos()
    used = set()
    tag = f"{env.name}._get_reward[{mode or 'default'}]"
    order = sorted(range(len(terms)), key=lambda i: -len(terms[i].cells))
    chosen = {}
    for ti in order:
        t = terms[ti]
        best = None
        for mi, (c, fs) in enumerate(monos):
            if mi in used:
                continue
            cells, attrs, acts = mono_info(fs)
            if t.cells <= cells and t.attrs <= attrs and acts == t.actions and abs(c) == 1:
                extra = len(cells - t.cells)
                if best is None or extra < best[0]:
                    best = (extra, mi)
        if best is not None:
            chosen[ti] = best[1]
            used.add(best[1])
    used = set()
    for ti, t in enumerate(terms):
        found = chosen.get(ti)
        inst = f"{tag}:term{ti}:{'+' if t.sign > 0 else '-'}{'/'.join(sorted(t.cells))}"
        if found is None:
            have = [(float(c), sorted(mono_info(fs)[0]), mono_info(fs)[2]) for c, fs in monos]
            ctx.ob("C03.a", inst, False, sl.where,
                   f"no reward term reads {sorted(t.cells)}{' gathered by the actions' if t.actions else ''}; terms found: {have}. {t.why}",
                   construct=f"{sl.fi.qualname}:{mode}:term-missing:{','.join(sorted(t.cells))}")
            continue
        used.add(found)
        c, fs = monos[found]
        cells, attrs, acts = mono_info(fs)
        bad = t.forbid & cells
        ctx.ob("C03.a", inst, not bad, sl.where,
               f"term reads {sorted(cells)}" + (f" incl. forbidden (mutated) {sorted(bad)}" if bad else ""),
               construct=f"{sl.fi.qualname}:{mode}:forbidden:{','.join(sorted(bad))}")
        ctx.ob("C03.c", inst + ":sign", (c > 0) == (t.sign > 0), sl.where,
               f"coefficient {float(c)} (expected sign {'+' if t.sign > 0 else '-'}). {t.why}",
               construct=f"{sl.fi.qualname}:{mode}:sign:{','.join(sorted(t.cells))}")
        if t.pred:
            ok, why = PREDS[t.pred]([a for a, _ in fs])
            ctx.ob("C03.b", inst + ":" + t.pred, ok, sl.where, why, construct=f"{sl.fi.qualname}:{mode}:{t.pred}")
        ctx.sample({"env": env.name, "mode": mode, "term": f"{float(c)} * " + " * ".join(vg.show(a, 3) for a, _ in fs)})
    extra = [m for i, m in enumerate(monos) if i not in used]
    ctx.ob("C03.c", tag + ":no-extra-terms", not extra, sl.where,
           "exactly the reference terms" if not extra else "unexpected extra terms: " + "; ".join(f"{float(c)}*" + "*".join(vg.show(a, 3) for a, _ in fs) for c, fs in extra),
           construct=f"{sl.fi.qualname}:{mode}:extra-terms")


def select_alternative(alts, sel):
    """Pick the code alternative for mode selector `sel`."""
    cands = []
    for guards, val in alts:
        if is_trivial(guards, val):
            continue
        gc = guard_consts(guards)
        if sel is None:
            cands.append((guards, val, gc))
        elif sel == "stepwise":
            if any(k == "self.stepwise_reward" for k, b in gc) and all(b for t, b in guards):
                cands.append((guards, val, gc))
        else:
            if any(k == sel and b for k, b in gc) and guards and guards[-1][1]:
                cands.append((guards, val, gc))
    return cands


def helpers(ctx: Ctx):
    """get_tour_length / get_distance definitions (shared by every length-type reward)."""
    fi = ctx.repo.get_function("rl4co/utils/ops.py", "get_tour_length")
    ctx.fn(fi)
    it = vg.Interp(ctx.repo, None, inline_policy=lambda f, a: False)
    fr = it.run_function(fi)
    ret = nf.strip(fr.ret)
    ok, why = False, "return is not get_distance(roll(x, +-1, dims=-2), x).sum(-1)"
    if ret.op == "meth" and ret.args[1] == "sum" and len(ret.args) >= 3 and cval(ret.args[2] if ret.args[2].op != "kw" else ret.args[2].args[1]) == -1:
        calls = find_calls(ret, OPS + "get_distance")
        if len(calls) == 1:
            x, y = calls[0].args[1], calls[0].args[2]
            rx, ry = roll_shift(x), roll_shift(y)
            r, other = (rx, y) if rx is not None else (ry, x)
            if r is not None:
                base, k, d = r
                if cval(k) in (-1, 1) and cval(d) == -2 and nf.strip(base) is nf.strip(other):
                    ok, why = True, f"get_distance(roll(x, {cval(k)}, dims=-2), x).sum(-1)"
                else:
                    why = f"cyclic shift by {cval(k)} on dims {cval(d)}: must shift by one along the sequence axis (-2) of the same tensor"
    ctx.ob("C03.b", "get_tour_length", ok, fi.loc, why, construct="get_tour_length:definition")
    fi = ctx.repo.get_function("rl4co/utils/ops.py", "get_distance")
    ctx.fn(fi)
    it = vg.Interp(ctx.repo, None)
    fr = it.run_function(fi)
    ret = nf.strip(fr.ret)
    ok, why = False, "return is not (x - y).norm(p=2, dim=-1)"
    if ret.op == "meth" and ret.args[1] == "norm":
        p_, d_ = kwarg(vg.mk("call", *ret.args[1:]), "p"), kwarg(vg.mk("call", *ret.args[1:]), "dim")
        diff = nf.poly(ret.args[0])
        two = sorted(float(c) for c, _ in diff.monos()) == [-1.0, 1.0]
        ok = two and cval(p_) == 2 and cval(d_) == -1
        why = f"({diff.show(2)}).norm(p={cval(p_)}, dim={cval(d_)})"
    ctx.ob("C03.b", "get_distance", ok, fi.loc, why, construct="get_distance:definition")


def _legs(node, guards=()):
    """additive structure of an accumulator update: [(distance atom, guards)]; a guard is (boolean node, required truth value)"""
    node = nf.strip(node)
    out = []
    if not isinstance(node, vg.S):
        return out
    if node.op in ("+", "-"):
        for x in node.args:
            out += _legs(x, guards)
        return out
    if node.op == "*":
        a, b = node.args
        for x, y in ((a, b), (b, a)):
            if isinstance(x, vg.S) and (nf._is_boolish(nf.strip(x, True)) or nf.strip(x, True).op in ("inv", "not")):
                return _legs(y, guards + ((x, True),))
        for x in node.args:
            out += _legs(x, guards)
        return out
    if nf._fn(node) == "torch.where" and len(node.args) == 4:
        return _legs(node.args[2], guards + ((node.args[1], True),)) + _legs(node.args[3], guards + ((node.args[1], False),))
    if node.op in ("phi", "ifexp"):
        return _legs(node.args[1], guards) + _legs(node.args[2], guards)
    fn = nf._fn(node)
    if (fn in nf.DIST_FN) or (node.op == "meth" and node.args[1] == "norm"):
        return [(node, guards)]
    return out


def padding_invariance(ctx: Ctx, rule: str, sl, acc_value, label="MTSPEnv._step:current_length"):
    """An instance that is already finished (no customer open in the incoming mask) is only padded with depot steps while its
    batch-mates run on.  Every travelled leg added to the length accumulator must then be switched off by a guard that is
    false in that state; otherwise the state-derived reward depends on how long the batch keeps running."""
    name = sl.td.name

    def assume(n):
        n0 = nf.strip(n, True)
        # the incoming mask restricted to the customers: nothing open
        if n0.op == "sub" and nf.strip(n0.args[0], True).op == "cell0" and nf.strip(n0.args[0], True).args[1] == "action_mask":
            return False
        r = nf._cmp_raw(n0)
        if r is not None:
            lhs, op, rhs = r
            L = nf.strip(lhs, True)
            counts = (L.op == "meth" and L.args[1] in ("sum", "count_nonzero")) or nf._fn(L) in ("torch.count_nonzero", "torch.sum")
            if counts and vg.is_const(rhs, 0):
                inner = L.args[0] if L.op == "meth" else L.args[1]
                i0 = nf.strip(inner, True)
                if i0.op == "sub" and nf.strip(i0.args[0], True).op == "cell0" and nf.strip(i0.args[0], True).args[1] == "action_mask":
                    return {"==": True, "<=": True, ">": False, "!=": False}.get(op)
        if n0.op == "cell0" and n0.args[1] == "done":
            return True
        return None
    legs = _legs(acc_value)
    if not legs:
        from ..model import AnalysisError
        raise AnalysisError(f"{label}: no travelled leg found in the accumulator update")
    def endpoint(x):
        """which node of the instance a location operand is: 'pad' for locs[action] (the padding action is the depot, index 0)
        and for locs[..., 0, :]; otherwise the expression itself"""
        x0 = nf.strip(x)
        if (nf._fn(x0) or "").endswith(":gather_by_index") and len(x0.args) >= 3 and nf.strip(x0.args[2]).op == "cell0" and nf.strip(x0.args[2]).args[1] == "action":
            return "pad"
        if x0.op == "sub" and x0.args[1].op == "tuple" and any(vg.is_const(c, 0) for c in x0.args[1].args) and nf.strip(x0.args[0]).op == "cell0" and nf.strip(x0.args[0]).args[1] == "locs":
            return "pad"
        return x0.id

    def zero_under_padding(leg):
        # get_distance(a, b) with both endpoints at the depot once action == padding action
        if nf._fn(leg) in nf.DIST_FN and len(leg.args) >= 3:
            return endpoint(leg.args[1]) == endpoint(leg.args[2]) == "pad"
        return False
    bad = []
    for leg, guards in legs:
        if zero_under_padding(leg):
            continue
        killed = False
        for g, want in guards:
            v = nf.kleene(g, assume)
            if v is not None and v != want:
                killed = True
        if not killed:
            bad.append((leg, guards))
    ok = not bad
    ctx.ob(rule, f"{label}:frozen-after-finish", ok, sl.where,
           f"{len(legs)} leg term(s) are added to the accumulator; each is guarded by a test that is false once no customer is open in the incoming mask" if ok else
           f"leg `{vg.show(bad[0][0], 3)[:120]}` is added under guards {[vg.show(g, 2) for g, _ in bad[0][1]]} that do not switch it off for an already finished instance: "
           "padding steps forced by a slower batch-mate keep adding length, so the reward depends on the batch composition",
           construct=f"{label}:padding-leg")


def ffsp_makespan(atom):
    """max over machines of max over real jobs of (schedule[b, m, j] + job_duration[b, j, m]): two last-axis max reductions
    (values), the dummy job column sliced off, both summands with coefficient +1, the durations transposed to (b, m, j)."""
    n = nf.strip(atom)
    while n.op == "meth" and n.args[1] in ("to", "float"):
        n = nf.strip(n.args[0])
    axes = []
    for _ in range(2):
        if n.op == "sub" and vg.is_const(n.args[1], 0):
            m = nf.strip(n.args[0])
        elif n.op == "attr" and n.args[1] == "values":
            m = nf.strip(n.args[0])
        elif (n.op == "meth" and n.args[1] == "amax") or nf._fn(n) == "torch.amax":
            m = n
        else:
            return False, f"not the values of a max reduction: {vg.show(n, 3)}"
        is_meth = m.op == "meth" and m.args[1] in ("max", "amax")
        is_fn = nf._fn(m) in ("torch.max", "torch.amax")
        if not (is_meth or is_fn):
            return False, f"not a max reduction: {vg.show(m, 3)}"
        ax = nf.axis_arg(m)
        axes.append(ax.args[0] if isinstance(ax, vg.S) and ax.op == "const" else None)
        n = nf.strip(m.args[0] if is_meth else m.args[1])
    if axes[0] not in (-1, 1) or axes[1] not in (-1, 2):
        return False, f"max reductions over axes {axes[::-1]}, expected the job axis (-1) of [B, machine, job] then the machine axis (-1) of [B, machine]"
    real_jobs = False
    if n.op == "sub" and isinstance(n.args[1], vg.S) and n.args[1].op == "tuple" and len(n.args[1].args) == 3:
        last = n.args[1].args[2]
        real_jobs = last.op == "slice" and vg.is_none(last.args[0]) and "num_job" in vg.selfattrs_of(last.args[1]) and nf.poly(last.args[1]) == nf.poly(vg.mk("selfattr", "num_job"))
        full = all(x.op == "slice" and all(vg.is_none(y) for y in x.args) for x in n.args[1].args[:2])
        real_jobs = real_jobs and full
        n = n.args[0]
    if not real_jobs:
        return False, "the dummy job column is not sliced off ([:, :, :num_job]) before the max"
    pv = nf.poly(n)
    pos, neg = pv.side_atoms(True), pv.side_atoms(False)
    if neg or len(pos) != 2 or any(c != 1 for c in pv.terms.values()):
        return False, f"end time is not start + duration: {pv.show(3)}"
    sched = [a for a in pos if vg.cells_of(a) >= {"schedule"} and "job_duration" not in vg.cells_of(a)]
    dur = [a for a in pos if a not in sched]
    if len(sched) != 1 or len(dur) != 1:
        return False, f"end time is not schedule + job_duration: {pv.show(3)}"
    d = nf.strip(dur[0])
    transposed = False
    if d.op == "meth" and d.args[1] == "permute":
        dims = d.args[2:]
        if len(dims) == 1 and dims[0].op == "tuple":
            dims = dims[0].args
        transposed = [x.args[0] if x.op == "const" else None for x in dims] == [0, 2, 1]
    elif d.op == "meth" and d.args[1] in ("transpose", "swapaxes"):
        transposed = sorted(x.args[0] % 3 if x.op == "const" and isinstance(x.args[0], int) else None for x in d.args[2:]) == [1, 2]
    elif d.op == "attr" and d.args[1] == "mT":
        transposed, d = True, vg.mk("meth", d.args[0], "mT")
    base = nf.strip(d.args[0]) if transposed else d
    if not (transposed and base.op == "cell0" and base.args[1] == "job_duration"):
        return False, f"durations [B, job, machine] are not transposed to the schedule's [B, machine, job]: {vg.show(d, 3)}"
    return True, "max_m max_{j < num_job} (schedule[b,m,j] + job_duration[b,j,m])"


def incremental(ctx: Ctx):
    """C03.d: objectives accumulated by _step."""
    # ---- mTSP
    env = EnvA(ctx.repo, T.ENVS["MTSPEnv"][0], "MTSPEnv")
    sl = env.slot("_step")
    ctx.fn(sl.fi)
    rew, mx, cur = sl.cell("reward"), sl.cell("max_subtour_length"), sl.cell("current_length")
    p = nf.poly(rew)
    ok = len(p.terms) == 1 and list(p.terms.values())[0] == -1 and nf.norm(mx) in [a for a in p.atoms()]
    ctx.ob("C03.d", "MTSPEnv._step:reward=-max_subtour_length", ok, sl.where, f"reward = {p.show(3)}", construct="MTSPEnv._step:reward")
    m = nf.strip(mx)
    okm, why = False, "max_subtour_length is not where(current_length > max_subtour_length, current_length, max_subtour_length)"
    if nf._fn(m) == "torch.where" and len(m.args) == 4:
        c = nf.cmpnf(m.args[1])
        a, b = m.args[2], m.args[3]
        if c is not None and c[1] == ">0":
            pos, neg = nf.sided_cells(c[0])
            pre = a  # the candidate length
            same_cand = nf.norm(pre) in c[0].side_atoms(True) or nf.poly(pre) - nf.poly(b) == c[0]
            keeps_old = nf.strip(b).op == "cell0" and nf.strip(b).args[1] == "max_subtour_length"
            cand_cells = vg.cells_of(pre)
            pre_reset = not _has_agent_factor(pre)
            # the candidate is the length INCLUDING the closing leg (current node -> depot) of the step that finishes the instance
            def is_depot_loc(x):
                x0 = nf.strip(x)
                return x0.op == "sub" and x0.args[1].op == "tuple" and any(vg.is_const(c_, 0) for c_ in x0.args[1].args) and nf.strip(x0.args[0]).op == "cell0" and nf.strip(x0.args[0]).args[1] == "locs"

            def is_action_loc(x):
                x0 = nf.strip(x)
                return (nf._fn(x0) or "").endswith(":gather_by_index") and len(x0.args) >= 3 and nf.strip(x0.args[2]).op == "cell0" and nf.strip(x0.args[2]).args[1] == "action"
            closing = [leg for leg, g_ in _legs(pre) if nf._fn(leg) in nf.DIST_FN and len(leg.args) >= 3 and
                       ((is_depot_loc(leg.args[1]) and is_action_loc(leg.args[2])) or (is_depot_loc(leg.args[2]) and is_action_loc(leg.args[1])))]
            has_closing = bool(closing)
            okm = same_cand and keeps_old and {"current_length", "locs", "action", "current_node"} <= cand_cells and pre_reset and has_closing
            why = f"where({c[0].show(2)} > 0, cand, old): cand reads {sorted(cand_cells)}, before the per-agent reset: {pre_reset}; cand includes the closing leg current node -> depot: {has_closing}"
    ctx.ob("C03.d", "MTSPEnv._step:max_subtour_length", okm, sl.where, why, construct="MTSPEnv._step:max_subtour_length")
    # the closing leg is added at the step that FINISHES the instance and at no step of a running one: its guards are evaluated
    # (three-valued) in the two states  (done now, not done before)  and  (not done now, not done before)
    if nf._fn(m) == "torch.where" and len(m.args) == 4:
        def _count_of(n0):
            r = nf._cmp_raw(n0)
            if r is None:
                return None
            lhs, op, rhs = r
            L = nf.strip(lhs, True)
            counts = (L.op == "meth" and L.args[1] in ("sum", "count_nonzero")) or nf._fn(L) in ("torch.count_nonzero", "torch.sum")
            if not (counts and vg.is_const(rhs, 0)):
                return None
            inner = nf.strip(L.args[0] if L.op == "meth" else L.args[1], True)
            incoming = inner.op == "sub" and nf.strip(inner.args[0], True).op == "cell0" and nf.strip(inner.args[0], True).args[1] == "action_mask"
            return ("was" if incoming else "now"), op

        def state(done_now):
            def assume(n):
                n0 = nf.strip(n, True)
                k = _count_of(n0)
                if k is None:
                    return None
                which, op = k
                zero = done_now if which == "now" else False       # "no customer open": now / in the incoming mask
                return {"==": zero, "<=": zero, ">": not zero, "!=": not zero}.get(op)
            return assume

        def _is_depot(x):
            x0 = nf.strip(x)
            return x0.op == "sub" and x0.args[1].op == "tuple" and any(vg.is_const(c_, 0) for c_ in x0.args[1].args) and nf.strip(x0.args[0]).op == "cell0" and nf.strip(x0.args[0]).args[1] == "locs"
        cl = [(leg, g_) for leg, g_ in _legs(m.args[2]) if nf._fn(leg) in nf.DIST_FN and len(leg.args) >= 3 and (_is_depot(leg.args[1]) or _is_depot(leg.args[2]))]
        okg, whyg = bool(cl), "no closing leg"
        for leg, guards in cl:
            at_finish = [nf.kleene(g, state(True)) == want for g, want in guards]
            running = [nf.kleene(g, state(False)) == want for g, want in guards]
            good = bool(guards) and all(at_finish) and not all(running)
            okg = okg and good
            whyg = f"closing leg guarded by {[vg.show(g, 3)[:60] for g, _ in guards]}: added at the finishing step {all(at_finish)}, not added while customers remain {not all(running)}"
        ctx.ob("C03.d", "MTSPEnv._step:closing-leg-at-the-finishing-step", okg, sl.where, whyg, construct="MTSPEnv._step:closing-leg-guard")
    pc = nf.poly(cur)
    okc = bool(pc.terms) and all(_mono_has_agent_factor(fs) for c, fs in pc.monos()) and {"current_length", "locs", "action", "current_node", "agent_idx"} <= vg.cells_of(cur)
    has_return = any("done" in vg.show(n, 2) or True for n in [cur]) and any(nf._fn(nf.strip(n)) == "torch.where" for n in vg.walk(cur))
    ctx.ob("C03.d", "MTSPEnv._step:current_length", okc and has_return, sl.where,
           f"current_length' = {pc.show(2)} (reset factor on every term: {okc}; return leg added under done: {has_return})",
           construct="MTSPEnv._step:current_length")
    padding_invariance(ctx, "C03.d", sl, cur)
    # ---- MDCPDP
    env = EnvA(ctx.repo, T.ENVS["MDCPDPEnv"][0], "MDCPDPEnv")
    sl = env.slot("_step")
    ctx.fn(sl.fi)
    cl = nf.strip(sl.cell("current_length"))
    ok, why = False, "current_length is not updated by scatter_add_ at the current depot"
    if cl.op == "meth" and cl.args[1] in ("scatter_add_", "scatter_add") and len(cl.args) >= 5:
        base, idx, val = cl.args[0], cl.args[3], cl.args[4]
        newdepot = sl.cell("current_depot")
        ok = nf.strip(base).op == "cell0" and idx is newdepot and {"locs", "current_node", "action"} <= vg.cells_of(val)
        zeroed = any(nf._fn(nf.strip(n)) == "torch.where" and any(vg.is_const(x, 0) for x in nf.strip(n).args[2:]) for n in vg.walk(val))
        ok = ok and zeroed
        why = f"scatter_add_(-1, updated current_depot: {idx is newdepot}, step length reads {sorted(vg.cells_of(val))}, depot->depot legs zeroed: {zeroed})"
    ctx.ob("C03.d", "MDCPDPEnv._step:current_length", ok, sl.where, why, construct="MDCPDPEnv._step:current_length")
    # which legs are free of charge: depot -> depot always (opening a new route); node -> depot only in the 'open' problem mode
    if cl.op == "meth" and cl.args[1] in ("scatter_add_", "scatter_add") and len(cl.args) >= 5:
        val = cl.args[4]
        D = None

        def zero_conds(v):
            """conditions under which the step length is replaced by 0, outermost first"""
            out = []
            v = nf.strip(v)
            while nf._fn(v) == "torch.where" and len(v.args) == 4 and vg.is_const(v.args[2], 0):
                out.append(v.args[1])
                v = nf.strip(v.args[3])
            return out, v

        def sig(cond):
            """{(cell, relation to the number of depots)} of a conjunction of comparisons with num_depot"""
            out = set()
            parts = list(nf.strip(cond, True).args) if nf.strip(cond, True).op in ("&", "and") else [cond]
            for p_ in parts:
                r_ = nf._cmp_raw(nf.strip(p_, True))
                if r_ is None:
                    return None
                lhs, op, rhs = r_
                if nf.dim_of(nf.strip(lhs)) is not None and nf.dim_of(nf.strip(rhs)) is None:
                    lhs, rhs, op = rhs, lhs, nf._MIRROR[op]     # num_depot > node  ==  node < num_depot
                cells = vg.cells_of(lhs)
                if len(cells) != 1 or not (nf.dim_of(nf.strip(rhs)) is not None and "capacity" in vg.cells_of(rhs, shapes=True)):
                    return None
                out.add((next(iter(cells)), op))
            return out
        alts = {}
        if val.op in ("phi", "ifexp") and val.args[0].op == "==" and any(vg.is_const(x, "open") for x in val.args[0].args):
            alts = {"open": val.args[1], "close": val.args[2]}
        else:
            alts = {"close": val}
        okz, whyz = True, []
        want_dd = {("action", "<"), ("current_node", "<")}
        want_nd = {("action", "<"), ("current_node", ">=")}
        for mode, v in alts.items():
            conds, rest = zero_conds(v)
            sigs = [sig(c) for c in conds]
            need = [want_dd] + ([want_nd] if mode == "open" else [])
            good = None not in sigs and sorted(map(sorted, sigs)) == sorted(map(sorted, need))
            okz = okz and good
            whyz.append(f"{mode}: zero-length legs {[sorted(x) if x else x for x in sigs]}" + ("" if good else f" (expected {[sorted(x) for x in need]})"))
        okz = okz and "open" in alts
        ctx.ob("C03.d", "MDCPDPEnv._step:free-legs", okz, sl.where, "depot -> depot legs cost nothing; node -> depot legs cost nothing only in 'open' mode: " + "; ".join(whyz),
               construct="MDCPDPEnv._step:free-legs")
    # ---- MDCPDP: the tour that is open when the episode ends still has to drive home (problem_mode 'close').  The return of
    #      every earlier tour is an explicit step; the last one is not, so it must be added either by _step when `done` is
    #      reached or by _get_reward from (current_node, current_depot).
    env = EnvA(ctx.repo, T.ALL_ENVS["MDCPDPEnv"], "MDCPDPEnv")
    rsl = env.slot("_get_reward")
    ctx.fn(rsl.fi)
    ssl = env.slot("_step")

    def has_return_leg(root):
        for n in vg.walk(root):
            is_dist = nf._fn(n) in nf.DIST_FN or (n.op == "meth" and n.args[1] == "norm")
            if is_dist and {"locs", "current_node", "current_depot"} <= vg.cells_of(n):
                return True
        return False
    in_reward = isinstance(rsl.fr.ret, vg.S) and has_return_leg(rsl.fr.ret)
    # ... and only for closed tours: every python-level alternative of the reward that contains the return leg is guarded by
    # problem_mode == 'close', and the alternatives without that guard do not contain it
    mode_ok = True
    if in_reward:
        def mode_of(cond):
            for cst, truth in guard_consts([(cond, True)]):
                if cst == "close":
                    return "close-first" if truth else "open-first"
                if cst == "open":
                    return "open-first" if truth else "close-first"
            return None
        mode_phis = [n for n in vg.walk(rsl.fr.ret) if n.op in ("phi", "ifexp") and mode_of(n.args[0]) is not None]
        ids = {n.id for n in mode_phis}
        outside = False
        for n in vg.walk(rsl.fr.ret, stop=lambda z: z.id in ids):
            if n.id in ids:
                continue
            is_dist = nf._fn(n) in nf.DIST_FN or (n.op == "meth" and n.args[1] == "norm")
            if is_dist and {"locs", "current_node", "current_depot"} <= vg.cells_of(n):
                outside = True
        inside_ok = bool(mode_phis)
        for n in mode_phis:
            close_b, open_b = (n.args[1], n.args[2]) if mode_of(n.args[0]) == "close-first" else (n.args[2], n.args[1])
            if has_return_leg(open_b) and not has_return_leg(close_b):
                inside_ok = False
            if has_return_leg(open_b) and has_return_leg(close_b):
                inside_ok = False
        mode_ok = inside_ok and not outside and any(has_return_leg(n) for n in mode_phis)
    # in _step: a leg to the depot added under the freshly computed done flag
    in_step = False
    acc = ssl.cell("current_length")
    done_new = ssl.cell("done")
    if acc is not None and done_new is not None:
        for n in vg.walk(acc):
            if nf._fn(n) == "torch.where" and len(n.args) == 4 and any(x is done_new or nf.strip(x) is nf.strip(done_new) for x in vg.walk(n.args[1])):
                in_step = True
    okc = (in_reward and mode_ok) or in_step
    if in_reward and not mode_ok:
        ctx.ob("C03.d", "MDCPDPEnv:last-return-leg:closed-tours-only", False, rsl.where,
               "the return leg of the last tour is not tied to problem_mode == 'close': in 'open' mode the way back to the depot is free (as for every earlier tour, see _step)",
               construct="MDCPDPEnv._get_reward:last-return-leg:mode")
    ctx.ob("C03.d", "MDCPDPEnv:last-return-leg", okc, rsl.where,
           "the return of the last tour enters the cost " + ("in _get_reward from (current_node, current_depot)" if in_reward else "in _step when done is reached") if okc else
           "neither _get_reward nor _step adds the way back of the tour that is open when the episode ends: _get_reward reads td['current_length'], which stops at the last delivery "
           "(the depot appended to `actions` is never used), so in 'close' mode the last vehicle is not charged for its return while every other vehicle is",
           construct="MDCPDPEnv._get_reward:last-return-leg")
    # ---- FFSP final reward
    env = EnvA(ctx.repo, T.ALL_ENVS["FFSPEnv"], "FFSPEnv")
    sl = env.slot("_step")
    ctx.fn(sl.fi)
    rw = sl.cell("reward")
    cells = vg.cells_of(rw)
    p_alts = [v for g, v in alternatives(rw) if not (nf.strip(v).op == "cell0")]
    ok, why = False, f"reward reads {sorted(cells)}"
    for v in p_alts:
        pv = nf.poly(v)
        if len(pv.terms) == 1 and list(pv.terms.values())[0] == -1:
            ok, why = ffsp_makespan(pv.atoms()[0])
            why = f"reward = -{why}"
    ctx.ob("C03.d", "FFSPEnv._step:reward", ok, sl.where, why, construct="FFSPEnv._step:reward")
    # ---- FJSP finish_times written by _make_step = time + proc_time (cross-checked in C07.b)
    # ---- FJSP / JSSP step-wise reward: minus the increase of the makespan lower bound, so that the rewards of an episode sum to
    #      -(final lower bound - initial lower bound)
    for cname in ("FJSPEnv", "JSSPEnv"):
        env = EnvA(ctx.repo, T.ALL_ENVS[cname], cname)
        sl = env.slot("_step")
        ctx.fn(sl.fi)
        rw, lbs_new = sl.cell("reward"), sl.cell("lbs")
        ok, why = False, "reward is not a function of the lower bounds under stepwise_reward"
        if isinstance(rw, vg.S) and rw.op in ("phi", "ifexp") and rw.args[0].op == "selfattr" and rw.args[0].args[0] == "stepwise_reward":
            val = rw.args[1]
            p = nf.poly(val)
            mon = p.monos()
            if len(mon) == 2 and sorted(c for c, _ in mon) == [-1, 1]:
                neg = [fs[0][0] for c, fs in mon if c == -1 and len(fs) == 1]
                pos = [fs[0][0] for c, fs in mon if c == 1 and len(fs) == 1]
                if neg and pos:
                    def max_of(a):
                        a = nf.strip(a)
                        if a.op == "attr" and a.args[1] == "values":
                            a = nf.strip(a.args[0])
                        if a.op == "sub" and vg.is_const(a.args[1], 0):
                            a = nf.strip(a.args[0])
                        if a.op == "meth" and a.args[1] in ("max", "amax") and nf.axis_is(a, 1):
                            return a.args[0]
                        if nf._fn(a) in ("torch.max", "torch.amax") and nf.axis_is(a, 1):
                            return a.args[1]
                        return None
                    new_, old_ = max_of(neg[0]), max_of(pos[0])
                    old_ok = old_ is not None and nf.strip(old_).op == "cell0" and nf.strip(old_).args[1] == "lbs"
                    lb_alt = lbs_new.args[1] if isinstance(lbs_new, vg.S) and lbs_new.op in ("phi", "ifexp") else lbs_new
                    new_ok = new_ is not None and nf.norm(new_) is nf.norm(lb_alt)
                    ok = old_ok and new_ok
                    why = f"reward = -(max lbs' - max lbs): the subtracted bound is the previous state's td['lbs']: {old_ok}; the added one is the bound stored as the new td['lbs']: {new_ok}"
        ctx.ob("C03.d", f"{cname}._step:stepwise-reward", ok, sl.where, why, construct=f"{cname}._step:stepwise-reward")


def mcp_covered_indicator(ctx: Ctx):
    """C03.f MCP: the reward weighs each item by the indicator `occurrence count > 0`, the count being a scatter-add of +1 per
    (chosen set, member item) pair into a zero table with one extra leading column for the padding id 0, which is dropped."""
    env = EnvA(ctx.repo, T.ALL_ENVS["MCPEnv"], "MCPEnv")
    sl = env.slot("_get_reward")
    ctx.fn(sl.fi)
    cmps = [(n, nf.cmpnf(n)) for n in vg.walk(sl.fr.ret) if nf.cmpnf(n) is not None]
    ok, why = False, f"expected exactly one comparison (covered = count > 0) in the reward, found {len(cmps)}"
    if len(cmps) == 1:
        P, op = cmps[0][1]
        pos, neg = P.side_atoms(True), P.side_atoms(False)
        why = f"indicator {P.show(2)} {op}"
        # the count takes the values 0, 1, 2, ...: `count > t` with 0 <= t < 1, `count >= t` with 0 < t <= 1 and `count != 0` all say `covered`
        t = -P.const_term()
        sep = (op == ">0" and 0 <= t < 1) or (op == ">=0" and 0 < t <= 1) or (op == "!=0" and t == 0)
        unit = len(pos) == 1 and not neg and [c for m, c in P.terms.items() if m][0] == 1
        if sep and unit:
            a = nf.strip(pos[0])
            dropped = False
            if a.op == "sub" and isinstance(a.args[1], vg.S) and a.args[1].op == "tuple" and len(a.args[1].args) == 2:
                r, c = a.args[1].args
                dropped = (r.op == "slice" and all(vg.is_none(x) for x in r.args)
                           and c.op == "slice" and vg.is_const(c.args[0], 1) and vg.is_none(c.args[1]) and vg.is_none(c.args[2]))
                a = nf.strip(a.args[0])
            st = a if a.op == "store" else None
            inc = None
            if st is not None:
                inc = nf.poly(st.args[2]) - nf.poly(vg.mk("sub", st.args[0], st.args[1]))
            zero = st is not None and nf._fn(nf.strip(st.args[0])) in ("torch.zeros", "torch.zeros_like")
            okc = inc is not None and inc.is_const() and inc.const_term() > 0
            ok = dropped and zero and okc and {"chosen", "orig_membership"} <= vg.cells_of(a)
            why = (f"covered = (count[:, 1:] {op[:-1]} {t}) separates 0 from 1, 2, ...; padding column dropped {dropped}, zero-initialised {zero}, "
                   f"+{inc.show(1) if inc is not None else '?'} per (chosen set, item) pair")
        else:
            why += " is not `count > 0`"
    ctx.ob("C03.f", "MCPEnv._get_reward:covered-indicator", ok, sl.where, why, construct="MCPEnv._get_reward:covered-indicator")


def svrp_technician_counter(ctx: Ctx):
    """C03.g SVRP charges each route at the rate of the technician who drives it, assigned by a Python loop over the depot
    visits of the action sequence.  Structural necessary conditions of that loop: every depot visit (loop iteration) writes the
    current technician's rate to the legs since the previous visit and then advances the technician by exactly one -- no
    iteration is skipped (`continue` / `break`) and the increment is unconditional; a new batch row restarts at technician 0."""
    import ast
    env = EnvA(ctx.repo, T.ALL_ENVS["SVRPEnv"], "SVRPEnv")
    fi = env.resolve("_get_reward")
    ctx.fn(fi)
    from ..model import canon_counters
    fnode = canon_counters(fi.node)
    loops = [n for n in ast.walk(fnode) if isinstance(n, ast.For)]
    ok, why = False, f"expected one loop over the depot visits, found {len(loops)}"
    if len(loops) == 1:
        lp = loops[0]
        jumps = [n for n in ast.walk(lp) if isinstance(n, (ast.Continue, ast.Break))]
        top = lp.body
        incs = [st for st in top if isinstance(st, ast.AugAssign) and isinstance(st.op, ast.Add) and isinstance(st.target, ast.Name)
                and isinstance(st.value, ast.Constant) and st.value.value == 1]
        nested_incs = [n for n in ast.walk(lp) if isinstance(n, ast.AugAssign) and n not in incs and isinstance(n.target, ast.Name) and incs and n.target.id == incs[0].target.id]
        rate_writes = [i for i, st in enumerate(top) if isinstance(st, ast.Assign) and "tech_costs" in ast.unparse(st.value) and isinstance(st.targets[0], ast.Subscript)]
        ctr = incs[0].target.id if len(incs) == 1 else None
        uses_ctr = ctr is not None and all(any(isinstance(x, ast.Name) and x.id == ctr for x in ast.walk(top[i].value)) for i in rate_writes)
        order_ok = bool(rate_writes) and len(incs) == 1 and max(rate_writes) < top.index(incs[0])
        # the restart for a new batch row resets the counter to 0
        resets = [n for n in ast.walk(lp) if isinstance(n, ast.Assign) and any(isinstance(t, ast.Name) and t.id == ctr for t in n.targets) and isinstance(n.value, ast.Constant) and n.value.value == 0]
        ok = not jumps and len(incs) == 1 and not nested_incs and uses_ctr and order_ok and bool(resets)
        why = (f"no skipped iteration: {not jumps}; one unconditional `{ctr} += 1` per depot visit: {len(incs) == 1 and not nested_incs}; the rate written before it is tech_costs[{ctr}]: {uses_ctr and order_ok}; "
               f"restart at 0 for a new row: {bool(resets)}")
    ctx.ob("C03.g", "SVRPEnv._get_reward:technician-per-route", ok, fi.loc, why, construct="SVRPEnv._get_reward:technician-counter")
    # switching to the next batch row: the route still open in the row being LEFT is charged first (`costs[row, start:] = rate`),
    # only then the row variable moves on -- and the same tail fill follows the loop for the last row
    ok2, why2 = False, "row switch not found"
    if len(loops) == 1:
        lp = loops[0]
        tgt = lp.target.id if isinstance(lp.target, ast.Name) else None
        for blk in [n for n in lp.body if isinstance(n, ast.If)]:
            moves = [(i, st) for i, st in enumerate(blk.body) if isinstance(st, ast.Assign) and len(st.targets) == 1 and isinstance(st.targets[0], ast.Name)
                     and isinstance(st.value, ast.Subscript) and isinstance(st.value.value, ast.Name) and st.value.value.id == tgt]
            if len(moves) != 1:
                continue
            mi, mv = moves[0]
            row = mv.targets[0].id
            fills = [i for i, st in enumerate(blk.body) if isinstance(st, ast.Assign) and isinstance(st.targets[0], ast.Subscript)
                     and any(isinstance(x, ast.Name) and x.id == row for x in ast.walk(st.targets[0].slice)) and "tech_costs" in ast.unparse(st.value)]
            idx_lp = fnode.body.index(lp) if lp in fnode.body else None
            after = [st for st in (fnode.body[idx_lp + 1:] if idx_lp is not None else []) if isinstance(st, ast.Assign) and isinstance(st.targets[0], ast.Subscript)
                     and any(isinstance(x, ast.Name) and x.id == row for x in ast.walk(st.targets[0].slice)) and "tech_costs" in ast.unparse(st.value)]
            ok2 = len(fills) == 1 and fills[0] < mi and len(after) == 1
            why2 = (f"on a row switch the open route of the row being left is charged before `{row}` moves on: {len(fills) == 1 and fills[0] < mi}; "
                    f"tail fill after the loop for the last row: {len(after) == 1}")
    ctx.ob("C03.g", "SVRPEnv._get_reward:last-route-of-each-row", ok2, fi.loc, why2 + ("" if ok2 else " -- the last route of a row is charged to another row (or not at all): the reward depends on the batch position"),
           construct="SVRPEnv._get_reward:row-switch-order")


def mdcpdp_one_metric(ctx: Ctx):
    """C03.h MDCPDP measures every leg with the env's configurable metric (`self.get_distance`, L1 or L2 by `dist_mode`): the
    legs accumulated in `_step` and the closing leg added in `_get_reward` are parts of ONE length.  A module-level Euclidean
    helper or an inline norm in either method gives a mixed-metric objective for `dist_mode="L1"` (identical values for L2)."""
    import ast
    cls = ctx.repo.get_class("rl4co/envs/routing/mdcpdp/env.py", "MDCPDPEnv")
    n_own = 0
    foreign = []
    for meth in ("_step", "_get_reward"):
        fi = cls.methods.get(meth)
        if fi is None:
            raise AnalysisError(f"MDCPDPEnv.{meth} not found")
        ctx.fn(fi)
        for c in ast.walk(fi.node):
            if not isinstance(c, ast.Call):
                continue
            f = c.func
            if isinstance(f, ast.Attribute) and f.attr == "get_distance" and isinstance(f.value, ast.Name) and f.value.id == "self":
                n_own += 1
            elif (isinstance(f, ast.Name) and f.id in ("get_distance", "get_tour_length", "get_distance_matrix")) or \
                    (isinstance(f, ast.Attribute) and f.attr in ("norm", "cdist", "pairwise_distance") and "loc" in ast.unparse(c)):
                foreign.append((meth, c))
    ok = n_own >= 2 and not foreign
    ctx.ob("C03.h", "MDCPDPEnv:one-metric-for-all-legs", ok, "rl4co/envs/routing/mdcpdp/env.py",
           f"{n_own} leg(s) measured with self.get_distance; legs measured some other way: " + (", ".join(f"{m}: {ast.unparse(c)[:50]}" for m, c in foreign[:2]) or "none"),
           construct="MDCPDPEnv:leg-metric")


def mdcpdp_metric_forms(ctx: Ctx):
    """C03.h (second clause) each branch of MDCPDPEnv.get_distance is the norm it is named after, taken over the coordinate axis
    of the DIFFERENCE of the two points: L1 = sum_k |a_k - b_k| (`.norm(p=1, dim=-1)` or `.abs().sum(-1)`), L2 = the 2-norm.
    `|sum_k (a_k - b_k)|` (sum first, absolute value afterwards) lets opposite-signed coordinate differences cancel."""
    cls = ctx.repo.get_class("rl4co/envs/routing/mdcpdp/env.py", "MDCPDPEnv")
    fi = cls.methods.get("get_distance")
    if fi is None:
        raise AnalysisError("MDCPDPEnv.get_distance not found")
    ctx.fn(fi)
    it = vg.Interp(ctx.repo, cls, inline_policy=lambda f, a: False)
    fr = it.run_function(fi)
    ps = fi.params()
    pts = [p_ for p_ in ps if p_ != "self"]
    if len(pts) != 2:
        raise AnalysisError(f"MDCPDPEnv.get_distance: expected two points, found {pts}")
    A, B = (nf.poly(vg.mk("param", p_)) for p_ in pts)

    def is_diff(x):
        x = nf.strip(x)
        while (x.op == "meth" and x.args[1] == "abs") or nf._fn(x) == "torch.abs":
            x = nf.strip(x.args[0] if x.op == "meth" else x.args[1])
        px = nf.poly(x)
        return px == A - B or px == B - A

    def absd(x):
        x = nf.strip(x)
        if (x.op == "meth" and x.args[1] == "abs") or nf._fn(x) == "torch.abs":
            return is_diff(x)
        return False

    def form(v):
        v = nf.strip(v)
        if (v.op == "meth" and v.args[1] == "norm") or nf._fn(v) in ("torch.norm", "torch.linalg.norm", "torch.linalg.vector_norm"):
            base = v.args[0] if v.op == "meth" else v.args[1]
            rest = v.args[2:]
            pk = [k_.args[1] for k_ in rest if isinstance(k_, vg.S) and k_.op == "kw" and k_.args[0] in ("p", "ord")]
            pv = pk[0] if pk else next((x for x in rest if isinstance(x, vg.S) and x.op == "const"), None)
            pnum = pv.args[0] if isinstance(pv, vg.S) and pv.op == "const" else 2
            if is_diff(base) and nf.axis_is(v, -1):
                return pnum
            return None
        if (v.op == "meth" and v.args[1] == "sum") or nf._fn(v) == "torch.sum":
            base = v.args[0] if v.op == "meth" else v.args[1]
            if absd(base) and nf.axis_is(v, -1):
                return 1
        return None
    seen = {}
    for cond, v in fr.returns:
        if not isinstance(v, vg.S):
            continue
        txt = vg.show(cond, 4) if cond is not None else ""
        mode = "L1" if "'L1'" in txt and "'L2'" not in txt else ("L2" if "'L2'" in txt else None)
        if mode is None:
            continue
        seen[mode] = form(v)
    for mode, want in (("L1", 1), ("L2", 2)):
        if mode not in seen:
            raise AnalysisError(f"MDCPDPEnv.get_distance: branch for dist_mode == {mode!r} not found")
        ok = seen[mode] == want
        ctx.ob("C03.h", f"MDCPDPEnv.get_distance[{mode}]:norm-of-the-difference", ok, fi.loc,
               f"the {mode} branch is the {want}-norm of (a - b) over the coordinate axis: {ok}" + ("" if ok else " -- e.g. the absolute value taken after the sum lets coordinate differences of opposite sign cancel"),
               construct=f"MDCPDPEnv.get_distance:{mode}:form")


def flp_min_axis(ctx: Ctx):
    """C03.e FLP: `min over the chosen facilities` is a reduction over axis 1 of a [B, k, n] tensor.  gather_by_index drops the
    gathered axis when exactly one index is gathered (k = 1), so the operand's rank must be fixed explicitly (view / reshape to
    three axes, or squeeze=False) before the axis-1 minimum -- otherwise a single-facility instance takes the minimum over locations."""
    from .. import batchaxis as ba
    from ..envs import generator_slot
    env = EnvA(ctx.repo, T.ALL_ENVS["FLPEnv"], "FLPEnv")
    sl = env.slot("_get_reward")
    ctx.fn(sl.fi)
    rs = env.slot("_reset")
    ranks = ba.RankFacts()
    ranks.learn_from_reset(rs.td)
    g, gsl = generator_slot(ctx.repo, env.cls)
    if gsl is not None and gsl.td is not None:
        gr = ba.RankFacts()
        gr.learn_from_reset(gsl.td)
        for k, v in rs.td.cells.items():
            if k not in ranks.cell_rank and gr.rank(v) is not None:
                ranks.cell_rank[k] = gr.rank(v)
    ret = sl.fr.ret
    mins = [n for n in vg.walk(ret) if n.op == "meth" and n.args[1] == "min" and nf.axis_arg(n) is not None] if isinstance(ret, vg.S) else []
    ok, why = False, f"{len(mins)} axis-wise minimum(s) in the reward"
    if len(mins) == 1:
        r = ranks.rank(mins[0].args[0])
        ax = nf.axis_arg(mins[0])
        ok = r == 3 and vg.is_const(ax, 1)
        why = f"min over axis {vg.show(ax, 1)} of an operand of " + (f"statically known rank {r}" if r is not None else
                                                                     "UNKNOWN rank: it comes out of gather_by_index with a [B, k] index, which has rank 3 for k > 1 and rank 2 for k = 1 "
                                                                     "(the gathered axis is squeezed away), so with one facility the minimum runs over the locations")
    ctx.ob("C03.e", "FLPEnv._get_reward:min-over-facilities", ok, sl.where, why, construct="FLPEnv._get_reward:min-axis-rank")
    flp_masked_min(ctx, "C03.e", "FLPEnv._get_reward", ret, sl.where)


def flp_masked_min(ctx: Ctx, rid: str, label: str, value, where):
    """`nearest CHOSEN facility` as a masked minimum: the entries taken out of the minimum (filled with +inf) are exactly the rows
    of the locations that are NOT chosen.  Filling the chosen rows instead gives the distance to the nearest unchosen location."""
    fills = [n for n in vg.walk(value) if n.op == "meth" and n.args[1] in ("masked_fill", "masked_fill_") and len(n.args) >= 4] if isinstance(value, vg.S) else []
    fills = [n for n in fills if "chosen" in vg.cells_of(n.args[2]) or any(x.op == "store" for x in vg.walk(n.args[2]))]
    if not fills:
        return
    for n in fills[:1]:
        m, v = n.args[2], n.args[3]
        def sel(val):
            def a_(x):
                y = nf.strip(x, True)
                while y.op == "meth" and y.args[1] in ("unsqueeze", "clone", "view", "reshape", "expand", "bool"):
                    y = nf.strip(y.args[0], True)
                if (y.op == "cell0" and y.args[1] == "chosen") or (y.op == "store" and "chosen" in vg.cells_of(y.args[0])):
                    return val
                return None
            return a_
        neg = nf.kleene(m, sel(True)) is False and nf.kleene(m, sel(False)) is True
        txt = vg.show(v, 2)
        pos_inf = ("inf" in txt and not txt.strip().startswith("-") and "-inf" not in txt and "- " not in txt)
        ok = neg and pos_inf
        ctx.ob(rid, f"{label}:minimum-over-the-chosen", ok, where,
               f"entries removed from the minimum: mask {vg.show(m, 3)[:60]} is the complement of the selection: {neg}; fill value {txt} is +inf: {pos_inf}",
               construct=f"{label}:masked-min-polarity")


def _is_agent_cmp(a):
    a1 = nf.strip(a, bool_ctx=True)
    # (agent_idx + [action == depot]) == agent_idx  normalises to  [action == depot] == 0
    return a1.op == "cmp" and a1.args[0] == "==0" and "action" in vg.cells_of(a1)


def _mono_has_agent_factor(fs):
    return any(_is_agent_cmp(a) for a, _ in fs)


def _has_agent_factor(s):
    p = nf.poly(s)
    return bool(p.terms) and all(_mono_has_agent_factor(fs) for c, fs in p.monos())


def run(ctx: Ctx):
    helpers(ctx)
    for cname, specs in TR.REWARD.items():
        env = EnvA(ctx.repo, T.ALL_ENVS[cname], cname)
        sl = env.slot("_get_reward")
        if sl is None:
            raise AnalysisError(f"{cname}._get_reward not found")
        ctx.fn(sl.fi)
        probs = sl.problems()
        if probs:
            raise AnalysisError(f"{cname}._get_reward: unhandled constructs {probs[:3]}")
        ret = sl.fr.ret
        if not isinstance(ret, vg.S):
            raise AnalysisError(f"{cname}._get_reward: return not resolved")
        alts = []
        for cond, v in sl.fr.returns:
            g0 = []
            items = list(cond.args) if (cond is not None and cond.op == "and") else ([cond] if cond is not None else [])
            for it_ in items:
                if it_.op == "not":
                    g0.append((it_.args[0], False))
                else:
                    g0.append((it_, True))
            if isinstance(v, vg.S):
                alts.extend(alternatives(v, tuple(g0)))
        triv = [a for a in alts if is_trivial(*a)]
        for g, v in triv:
            pz = nf.poly(v)
            okz = all(nf._fn(a) in ("torch.zeros", "torch.zeros_like") for a in pz.atoms())
            ctx.ob("C03.c", f"{cname}._get_reward[trivial]", okz, sl.where, TR.TRIVIAL, construct=f"{sl.fi.qualname}:trivial")
        nontriv = [(g, v, guard_consts(g)) for g, v in alts if not is_trivial(g, v)]
        assigned = {}
        taken = set()
        for sel, terms in specs:
            if sel is not None:
                c = select_alternative(alts, sel)
                if c:
                    assigned[sel] = c
                    taken |= {x[1].id for x in c}
        rest = [x for x in nontriv if x[1].id not in taken]
        for sel, terms in specs:
            if sel not in assigned:
                # alternatives explicitly guarded AGAINST this mode (x != 'mode' taken, x == 'mode' not taken) do not compute it
                assigned[sel] = [x for x in rest if not any(k == sel and not b for k, b in x[2])]
        for sel, terms in specs:
            cands = assigned[sel]
            if not cands:
                ctx.ob("C03.c", f"{cname}._get_reward[{sel}]:mode-selected", False, sl.where,
                       f"no return path of _get_reward is taken exactly when the mode is {sel!r}: the objective of that mode is never (or wrongly) selected",
                       construct=f"{sl.fi.qualname}:{sel}:mode-selection")
                continue
            seen = set()
            for guards, val, gc in cands:
                if val.id in seen:
                    continue
                seen.add(val.id)
                check_terms(ctx, env, sl, sel, val, terms)
    incremental(ctx)
    flp_min_axis(ctx)
    mdcpdp_one_metric(ctx)
    mdcpdp_metric_forms(ctx)
    mcp_covered_indicator(ctx)
    svrp_technician_counter(ctx)
    exact_distances(ctx, "C03.i", [(T.ALL_ENVS[c], f"{c}._get_reward") for c in TR.REWARD])


def exact_distances(ctx: Ctx, rid: str, methods):
    """C03.i / C08.j distances that enter an objective (or the bookkeeping shown to the policy) are computed from coordinate
    DIFFERENCES.  torch.cdist in its default compute mode switches to the matrix-multiplication formulation
    |x|^2 + |y|^2 - 2 x.y for more than 25 points: away from the origin the squares cancel and the result is off by the typical
    neighbour spacing (a selected facility at a non-zero distance from itself, a tour length that differs from the recomputed
    one).  Every distance helper of rl4co/utils/ops.py (name contains dist / tour / length) and every listed method (own body, env class resolved through the MRO) is
    scanned; a cdist call must pass compute_mode='donot_use_mm_for_euclid_dist'."""
    import ast
    import re
    # the distance helpers proper (a neighbour-graph helper that only RANKS points by distance is not an objective)
    fis = [f for n_, f in ctx.repo.module_by_path("rl4co/utils/ops.py").functions.items() if re.search(r"dist|tour|length", n_)]
    if len(fis) < 3:
        raise AnalysisError(f"distance helpers of rl4co/utils/ops.py lost: {[f.qualname for f in fis]}")
    for path, qn in methods:
        cname, m = qn.split(".", 1)
        ci = ctx.repo.get_class(path, cname)
        fi = ctx.repo.resolve_method(ci, m)
        if fi is None:
            raise AnalysisError(f"{qn} not found")
        fis.append(fi)
    seen = set()
    for fi in fis:
        if id(fi) in seen:
            continue
        seen.add(id(fi))
        ctx.fn(fi)
        bad = []
        for n in ast.walk(fi.node):
            if isinstance(n, ast.Call) and ((isinstance(n.func, ast.Attribute) and n.func.attr == "cdist") or (isinstance(n.func, ast.Name) and n.func.id == "cdist")):
                cm = [k.value for k in n.keywords if k.arg == "compute_mode"]
                if not (cm and isinstance(cm[0], ast.Constant) and cm[0].value == "donot_use_mm_for_euclid_dist"):
                    bad.append(n.lineno)
        ctx.ob(rid, f"{fi.qualname}:distances-from-differences", not bad, fi.loc,
               "no matrix-multiplication distance" if not bad else f"torch.cdist in its default compute mode at line(s) {bad}: for more than 25 points it evaluates "
               "|x|^2 + |y|^2 - 2 x.y, which cancels catastrophically away from the origin",
               construct=f"{fi.qualname}:cdist-mm")
        if fi.module.relpath == "rl4co/utils/ops.py":
            # ... and a helper returns the Euclidean length itself: no smoothing constant is added under the root or to the result
            # (`(d2 + 1e-8).sqrt()` makes coincident points 1e-4 apart -- every padded / repeated node then adds to the objective)
            eps = []
            for n in ast.walk(fi.node):
                if isinstance(n, ast.BinOp) and isinstance(n.op, (ast.Add, ast.Sub)):
                    for o in (n.left, n.right):
                        if isinstance(o, ast.Constant) and isinstance(o.value, float) and o.value != 0.0:
                            eps.append((n.lineno, ast.unparse(n)[:50]))
                if isinstance(n, ast.Call):
                    for k in n.keywords:
                        if k.arg == "eps" and not (isinstance(k.value, ast.Constant) and k.value.value in (0, 0.0)):
                            eps.append((n.lineno, ast.unparse(n)[:50]))
            ctx.ob(rid, f"{fi.qualname}:no-smoothing-constant", not eps, fi.loc,
                   "the length is returned as computed" if not eps else f"a float constant is added inside the distance helper: {eps} -- coincident points get a non-zero distance, "
                   "so the length of a tour with repeated / padded nodes is no longer the objective value",
                   construct=f"{fi.qualname}:smoothing-constant")


def run_thorough(ctx: Ctx):
    from ..selftest.corpus import for_prop
    from ..selftest.runner import run_corpus
    run_corpus(ctx, for_prop("C03"))
