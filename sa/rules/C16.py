"""C16 -- training losses are the stated policy-gradient surrogates.  Decided clauses:

C16.a  gradient isolation: the baseline value returned by every REINFORCEBaseline.eval is
       grad-free (constant, function of the reward argument only, .detach()ed, or produced
       under inference_mode/no_grad; WarmupBaseline by induction over its inner baselines);
       CriticBaseline's loss regresses the attached value on the detached target; PPO's
       advantage uses value_pred.detach(); the rollout baseline's dataset values are detached
C16.b  formula normal forms: REINFORCE.calculate_loss == -mean(scaler(reward - bl_val) * ll) + bl_loss;
       SymNCO's two losses == mean(-(r - mean_dim(r, keepdim)) * ll); PPO == -mean(min(rho*A,
       clamp(rho, 1-eps, 1+eps)*A)) + lambda_v * huber(v, R) - lambda_e * mean(H) with one rho, A, eps
C16.c  shared-mean shape discipline: every shared baseline mean names its dim and keeps it
"""
from __future__ import annotations

import ast

from .. import nf, vg
from ..core import Ctx
from ..model import AnalysisError

FLOOR = 37
EXPLANATION = (
    "Static taint analysis (sources: outputs of self.<module>(...) calls; sanitizers: .detach(), no_grad/inference_mode) of "
    "the value returned by all 7 REINFORCEBaseline.eval implementations, CriticBaseline's loss, PPO's advantage and the rollout "
    "baseline's dataset values; polynomial normal form of REINFORCE.calculate_loss, the two SymNCO REINFORCE losses and PPO's "
    "clipped surrogate (sign, operands, single ratio/advantage/epsilon, value and entropy terms); dim/keepdim discipline of shared "
    "means. Proves the formula shape and gradient isolation for all batches; equality of parameter gradients (autograd) is not decided."
)
RULE = "one obligation per (baseline class | loss formula | shared mean)"
BL = "rl4co/models/rl/reinforce/baselines.py"
RF = "rl4co/models/rl/reinforce/reinforce.py"
PPO = "rl4co/models/rl/ppo/ppo.py"
SYM = "rl4co/models/zoo/symnco/losses.py"


def module_call(n) -> bool:
    """self.<attr>(...) : output of a (possibly trainable) sub-module"""
    if n.op == "meth" and n.args[0] is vg.SELF:
        return True
    if n.op == "call" and isinstance(n.args[0], vg.S) and n.args[0].op == "selfattr":
        return True
    if n.op == "meth" and isinstance(n.args[0], vg.S) and n.args[0].op == "selfattr" and n.args[1] not in ("eval", "detach", "mean", "item", "to", "cpu"):
        return n.args[0].args[0] not in NON_TRAINABLE
    return False


# attributes of the Lightning modules that are not trainable networks (environment, configuration, data)
NON_TRAINABLE = {"env", "ppo_cfg", "data_cfg", "dataset", "generator", "metrics", "trainer"}


def tainted(s, depth=0):
    """Unsanitised gradient-carrying sources reachable from s."""
    out = []
    seen = set()
    stack = [s]
    while stack:
        n = stack.pop()
        if not isinstance(n, vg.S) or n.id in seen:
            continue
        seen.add(n.id)
        if n.op == "nograd":
            continue
        if n.op == "meth" and n.args[1] in ("detach", "item", "numpy", "cpu_numpy"):
            continue
        if module_call(n):
            out.append(n)
            continue
        stack.extend(vg.children(n))
    return out


def first_of(ret, it):
    if isinstance(ret, vg.Tup):
        return it.sym(ret.items[0]), it.sym(ret.items[1])
    if isinstance(ret, vg.S) and ret.op == "tuple" and len(ret.args) == 2:
        return ret.args[0], ret.args[1]
    return None, None


def alts(s):
    if isinstance(s, vg.S) and s.op in ("phi", "ifexp"):
        yield from alts(s.args[1])
        yield from alts(s.args[2])
    elif isinstance(s, vg.Tup):
        yield s
    else:
        yield s


def pomo_training_axes(ctx: Ctx):
    """C16.h POMO's shared baseline is `reward.mean(dim=1)` of `unbatchify(reward, (n_aug, n_start))`: axis 1 is the start axis only
    when the augmentation factor is dropped from the layout, i.e. n_aug == 0 -- `unbatchify` skips factors <= 0, while a factor 1
    yields [batch, 1, starts] and the mean over the singleton axis equals the reward (every advantage 0, no gradient).  So on the
    training path `n_aug = 0` is reached for EVERY configured num_augment: each condition guarding that assignment reads parameters
    of shared_step (the phase) only -- never the augmentation factor or another local."""
    import ast
    rel = "rl4co/models/zoo/pomo/model.py"
    fi = ctx.repo.get_function(rel, "POMO.shared_step")
    if fi is None:
        raise AnalysisError("POMO.shared_step not found")
    ctx.fn(fi)
    found = []
    # the augmentation factor: the first entry of the shape tuple handed to unbatchify (identified by position, not by name)
    augs = {c.args[1].elts[0].id for c in ast.walk(fi.node) if isinstance(c, ast.Call) and (getattr(c.func, "id", None) == "unbatchify" or getattr(c.func, "attr", None) == "unbatchify")
            and len(c.args) > 1 and isinstance(c.args[1], ast.Tuple) and len(c.args[1].elts) == 2 and isinstance(c.args[1].elts[0], ast.Name)}
    if len(augs) != 1:
        raise AnalysisError(f"POMO.shared_step: augmentation factor of unbatchify(.., (n_aug, n_start)) not identified: {sorted(augs)}")
    aug = next(iter(augs))
    params = set(fi.params())

    def visit(stmts, guards):
        for st in stmts:
            if isinstance(st, ast.Assign) and any(isinstance(t, ast.Name) and t.id == aug for t in st.targets) and isinstance(st.value, ast.Constant) and st.value.value == 0:
                found.append((st, list(guards)))
            if isinstance(st, ast.If):
                visit(st.body, guards + [st.test])
                visit(st.orelse, guards + [ast.UnaryOp(op=ast.Not(), operand=st.test)])
            elif isinstance(st, (ast.For, ast.While, ast.With, ast.Try)):
                for blk in ("body", "orelse", "finalbody"):
                    visit(getattr(st, blk, []) or [], guards)
    visit(fi.node.body, [])
    if not found:
        raise AnalysisError("POMO.shared_step: `n_aug = 0` for the training phase not found")
    for st, guards in found:
        names = sorted({x.id for g in guards for x in ast.walk(g) if isinstance(x, ast.Name)})
        def is_train(g, pol=True):
            """the guard says `<parameter> == "train"` (mirrored / negated spellings included)"""
            if isinstance(g, ast.UnaryOp) and isinstance(g.op, ast.Not):
                return is_train(g.operand, not pol)
            if isinstance(g, ast.Compare) and len(g.ops) == 1 and isinstance(g.ops[0], (ast.Eq, ast.NotEq)):
                a_, b_ = g.left, g.comparators[0]
                if isinstance(a_, ast.Constant):
                    a_, b_ = b_, a_
                if isinstance(a_, ast.Name) and a_.id in params and isinstance(b_, ast.Constant) and b_.value == "train":
                    return isinstance(g.ops[0], ast.Eq) == pol
            return False
        ok = bool(guards) and all(n in params for n in names) and any(is_train(g) for g in guards) and all(is_train(g) or not any(isinstance(x, ast.Constant) and x.value == "train" for x in ast.walk(g)) for g in guards)
        ctx.ob("C16.h", "POMO.shared_step:training-drops-the-augmentation-axis", ok, f"{rel}:{st.lineno}",
               f"`n_aug = 0` is guarded by {[ast.unparse(g) for g in guards]}" +
               ("" if ok else f" -- the guard also depends on {[n for n in names if n not in params]}: for some configured num_augment the training layout keeps a singleton augmentation axis, "
                "the shared baseline (mean over axis 1) equals the reward and the loss carries no gradient"),
               construct="POMO.shared_step:n_aug-reset-guard")


def run(ctx: Ctx):
    differentiable_helpers(ctx)
    pomo_training_axes(ctx)
    critic_value_shape(ctx)
    # the baseline that enters the surrogate is the configured one: settings stored as given, one owner per piece of state
    # (shared with C20.g)
    from . import C20 as _C20
    _n0 = len(ctx.obligations)
    _C20.ownership_rules(ctx)
    for _o in ctx.obligations[_n0:]:
        _o.rule = "C16.g"
    base = ctx.repo.get_class(BL, "REINFORCEBaseline")
    subs = [c for c in ctx.repo.modules["rl4co.models.rl.reinforce.baselines"].classes.values() if c is not base and base in ctx.repo.mro(c)]
    evals = [c for c in subs if "eval" in c.methods]
    if len(evals) < 6:
        raise AnalysisError(f"expected >= 6 baseline classes with eval, found {len(evals)}")
    for c in evals:
        fi = c.methods["eval"]
        ctx.fn(fi)
        it = vg.Interp(ctx.repo, c, inline_policy=lambda f, a: False)
        fr = it.run_function(fi)
        vals = []
        for cond, v in fr.returns:
            a, b = first_of(v, it)
            if a is None:
                vs = it.sym(v)
                if vs.op == "meth" and vs.args[1] == "eval" and vs.args[0].op == "selfattr":
                    continue  # delegates to an inner baseline's eval (induction)
                raise AnalysisError(f"{c.name}.eval: return is not a (value, loss) pair")
            vals.append((a, b))
        bad = []
        for a, b in vals:
            if c.name == "WarmupBaseline":
                # induction: first elements of the inner baselines' eval results, combined with scalars
                src = [t for t in tainted(a) if not (t.op == "meth" and t.args[1] == "eval")]
                bad += src
            else:
                bad += tainted(a)
        ctx.ob("C16.a", f"{c.name}.eval:value-grad-free", not bad, fi.loc,
               (f"baseline value(s) {[vg.show(a, 3) for a, _ in vals]} carry no gradient" if not bad else
                f"baseline value depends on {vg.show(bad[0], 3)} without .detach()/no_grad: gradients flow from the advantage into the baseline network / policy copy"),
               construct=f"{c.name}.eval:value-not-detached")
        ctx.sample({"baseline": c.name, "value": [vg.show(a, 3) for a, _ in vals]})
        if c.name == "CriticBaseline":
            a, b = vals[0]
            okl = nf._fn(b) in ("torch.nn.functional.mse_loss",) and not tainted(b.args[2]) and bool(tainted(b.args[1]))
            ctx.ob("C16.a", "CriticBaseline.eval:loss", okl, fi.loc, "bl_loss = mse_loss(v (attached), target.detach())", construct="CriticBaseline.eval:loss")
        if c.name == "ExponentialBaseline":
            # every assignment of self.v is detached
            ws = [e for e in it.events if e.kind == "selfwrite" and e.data[0] == "v"]
            okv = bool(ws) and all(isinstance(e.data[1], vg.S) and e.data[1].op == "meth" and e.data[1].args[1] == "detach" for e in ws)
            ctx.ob("C16.a", "ExponentialBaseline.eval:state-detached", okv, fi.loc, "self.v is only ever assigned a .detach()ed value", construct="ExponentialBaseline.eval:state")
    # rollout baseline dataset values
    rb = ctx.repo.get_class(BL, "RolloutBaseline")
    fi = rb.methods["wrap_dataset"]
    ctx.fn(fi)
    itw = vg.Interp(ctx.repo, rb, inline_policy=lambda f, a: False)
    itw.run_function(fi)
    adds = [e for e in itw.events if e.kind == "methcall" and e.data[1] == "add_key" and len(e.data[2]) == 2 and vg.is_const(e.data[2][0], "extra")]

    def detached(v):
        """v is the rollout result behind a .detach() (shape / device moves may follow)"""
        while isinstance(v, vg.S) and v.op == "meth" and v.args[1] in ("cpu", "to", "float", "clone", "contiguous", "view", "reshape", "squeeze"):
            v = v.args[0]
        return isinstance(v, vg.S) and v.op == "meth" and v.args[1] == "detach" and any((nf._fn(n) or "").endswith(".rollout") for n in vg.walk(v.args[0]))
    okd = len(adds) == 1 and detached(adds[0].data[2][1])
    ev = rb.methods["rollout"]
    ctx.fn(ev)
    okr = any(isinstance(n, ast.With) and "inference_mode" in ast.unparse(n.items[0].context_expr) for n in ast.walk(ev.node))
    ctx.ob("C16.a", "RolloutBaseline.wrap_dataset:detached", okd and okr, fi.loc, f"rollout under inference_mode: {okr}; rewards detached before add_key: {okd}", construct="RolloutBaseline.wrap_dataset:detach")
    # the greedy-rollout baseline is a FROZEN copy of the policy: a deep copy, so optimiser steps on the policy do not move it
    up = rb.methods["_update_policy"]
    ctx.fn(up)
    itu = vg.Interp(ctx.repo, rb, inline_policy=lambda f, a: False)
    itu.run_function(up)
    pol = itu.selfattrs.get("policy")
    base = pol
    while isinstance(base, vg.S) and base.op == "meth" and base.args[1] in ("to", "cpu", "cuda", "eval", "requires_grad_"):
        base = base.args[0]
    okf = isinstance(base, vg.S) and nf._fn(base) == "copy.deepcopy" and len(base.args) == 2 and base.args[1].op == "param" and base.args[1].args[0] == up.params()[1]
    ctx.ob("C16.a", "RolloutBaseline._update_policy:frozen-copy", okf, up.loc,
           "self.policy = copy.deepcopy(policy): parameters of the baseline policy are not shared with the trained policy" if okf else
           f"self.policy = {vg.show(pol, 4) if isinstance(pol, vg.S) else pol}: not a deep copy of the policy -- the baseline shares parameters with the policy being trained, so its values follow every optimiser step",
           construct="RolloutBaseline._update_policy:copy")
    # stateful baselines' own formulas are part of the reference surrogate (shared with C20.c / C20.d)
    from . import C20
    n0 = len(ctx.obligations)
    C20.exponential_rules(ctx)
    C20.warmup_rules(ctx)
    for o in ctx.obligations[n0:]:
        o.rule = "C16.d"
    # ---------------- A2C = REINFORCE whose baseline is the critic; both parameter sets are optimised
    a2c = ctx.repo.get_class("rl4co/models/rl/a2c/a2c.py", "A2C")
    ini = a2c.methods["__init__"]
    ctx.fn(ini)
    sup = [n for n in ast.walk(ini.node) if isinstance(n, ast.Call) and isinstance(n.func, ast.Attribute) and n.func.attr == "__init__" and isinstance(n.func.value, ast.Call)
           and getattr(n.func.value.func, "id", "") == "super"]
    ok_b = False
    if len(sup) == 1:
        bl = [k.value for k in sup[0].keywords if k.arg == "baseline"]
        ok_b = len(bl) == 1 and isinstance(bl[0], ast.Call) and getattr(bl[0].func, "id", "") == "CriticBaseline" and len(bl[0].args) == 1 and isinstance(bl[0].args[0], ast.Name) \
            and bl[0].args[0].id in ini.params()
    bases_ok = any(getattr(b, "id", "") == "REINFORCE" for b in a2c.node.bases)
    ctx.ob("C16.b", "A2C.__init__:critic-baseline", ok_b and bases_ok, ini.loc, "A2C is REINFORCE with baseline=CriticBaseline(critic): its loss is calculate_loss with the critic's value and mse loss",
           construct="A2C.__init__:baseline")
    co = a2c.methods["configure_optimizers"]
    ctx.fn(co)
    groups = [n for n in ast.walk(co.node) if isinstance(n, ast.Dict)]
    srcs = {ast.unparse(v.func.value) for d_ in groups for k, v in zip(d_.keys, d_.values) if isinstance(k, ast.Constant) and k.value == "params" and isinstance(v, ast.Call)
            and isinstance(v.func, ast.Attribute) and v.func.attr == "parameters"}
    ctx.ob("C16.b", "A2C.configure_optimizers:both-parameter-sets", srcs == {"self.policy", "self.baseline"}, co.loc,
           f"optimised parameter groups: {sorted(srcs)} (policy: surrogate term, baseline/critic: bl_loss term)", construct="A2C.configure_optimizers:groups")
    # ---------------- REINFORCE.calculate_loss
    rf = ctx.repo.get_class(RF, "REINFORCE")
    fi = rf.methods["calculate_loss"]
    ctx.fn(fi)
    it = vg.Interp(ctx.repo, rf, inline_policy=lambda f, a: False)
    fr = it.run_function(fi)
    # the values are read off the dict handed to policy_out.update({...}) (its keys are the module's reporting API), not off local names
    L = {k: v for k, v in fr.locals.items() if k in fi.params()}
    for e in it.events:
        if e.kind == "methcall" and e.data[1] == "update" and e.data[2] and isinstance(e.data[2][0], vg.S) and e.data[2][0].op == "dict":
            for it_ in e.data[2][0].args:
                if it_.op == "item" and it_.args[0].op == "const":
                    L[it_.args[0].args[0]] = it_.args[1]
    adv0 = None
    loss, rl = L.get("loss"), L.get("reinforce_loss")
    if not all(isinstance(L.get(k), vg.S) for k in ("bl_loss", "bl_val", "reward")):
        loss = None
    ok, why = False, "loss structure not recognised"
    if isinstance(loss, vg.S) and isinstance(rl, vg.S):
        pl = nf.poly(loss)
        okl = pl == nf.poly(rl) + nf.poly(L["bl_loss"])
        prl = nf.poly(rl)
        mon = prl.monos()
        inner_ok = sign_ok = adv_ok = False
        if len(mon) == 1 and len(mon[0][1]) == 1:
            sign_ok = mon[0][0] == -1
            m = mon[0][1][0][0]
            if m.op == "meth" and m.args[1] == "mean" and len(m.args) == 2:
                pin = nf.poly(m.args[0])
                im = pin.monos()
                if len(im) == 1 and im[0][0] == 1 and len(im[0][1]) == 2:
                    ats = [a for a, _ in im[0][1]]
                    ll = [a for a in ats if "log_likelihood" in vg.show(a, 4)]
                    sc = [a for a in ats if a.op == "meth" and a.args[1] == "advantage_scaler" or (a.op == "call" and "advantage_scaler" in vg.show(a.args[0], 2))]
                    inner_ok = len(ll) == 1 and len(sc) == 1
                    if sc:
                        arg = sc[0].args[2] if sc[0].op == "meth" else sc[0].args[1]
                        pa = nf.poly(arg)
                        want = nf.poly(L["reward"]) - nf.poly(L["bl_val"])
                        adv_ok = pa == want
        ok = okl and sign_ok and inner_ok and adv_ok
        why = f"loss = reinforce_loss + bl_loss: {okl}; reinforce_loss = -mean(.): {sign_ok}; product of scaler(advantage) and log-likelihood: {inner_ok}; advantage = reward - bl_val: {adv_ok}"
    ctx.ob("C16.b", "REINFORCE.calculate_loss", ok, fi.loc, why, construct="REINFORCE.calculate_loss:formula")
    blv = L.get("bl_val")
    okb = isinstance(blv, vg.S) and any(n.op in ("phi", "ifexp") and "extra" in vg.show(n.args[0], 3) and any(m.op == "meth" and m.args[1] == "eval" for m in vg.walk(n.args[1]))
                                        for n in vg.walk(blv))
    ctx.ob("C16.b", "REINFORCE.calculate_loss:baseline-source", okb, fi.loc, "bl_val, bl_loss = baseline.eval(td, reward, env) unless the batch carries 'extra'", construct="REINFORCE.calculate_loss:baseline-source")
    reinforce_variants(ctx)
    symnco_total(ctx)
    # ---------------- SymNCO losses
    for nm in ("problem_symmetricity_loss", "solution_symmetricity_loss"):
        fi = ctx.repo.get_function(SYM, nm)
        ctx.fn(fi)
        it = vg.Interp(ctx.repo, None)
        fr = it.run_function(fi)
        rets = [v for c, v in fr.returns if not vg.is_const(v, 0)]
        ok, why, okc = False, "unexpected structure", False
        if len(rets) == 1:
            r = rets[0]
            if r.op == "meth" and r.args[1] == "mean" and len(r.args) == 2:
                p = nf.poly(r.args[0])
                # -(reward - mean)*ll = -reward*ll + mean*ll
                mon = p.monos()
                if len(mon) == 2:
                    neg = [fs for c, fs in mon if c == -1]
                    pos = [fs for c, fs in mon if c == 1]
                    if len(neg) == 1 and len(pos) == 1:
                        nn_ = {vg.show(a, 1) for a, _ in neg[0]}
                        means = [a for a, _ in pos[0] if a.op == "meth" and a.args[1] == "mean"]
                        ok = nn_ == {"reward", "log_likelihood"} and len(means) == 1 and any(a.op == "param" and a.args[0] == "log_likelihood" for a, _ in pos[0])
                        if means:
                            kws = {k.args[0]: k.args[1] for k in means[0].args[2:] if k.op == "kw"}
                            if nf.axis_arg(means[0]) is not None:
                                kws["dim"] = nf.axis_arg(means[0])
                            okc = "dim" in kws and kws["dim"].op == "param" and vg.is_const(kws.get("keepdim", vg.const(False)), True) and means[0].args[0].op == "param" and means[0].args[0].args[0] == "reward"
                        why = f"mean(-(reward - mean(reward, dim, keepdim=True)) * ll): terms {p.show(2)}"
        # the early `return 0` is taken exactly when fewer than two replicas exist on `dim`
        zero = [c for c, v in fr.returns if vg.is_const(v, 0)]
        okz = not zero
        for c in zero:
            r_ = nf.cmpnf(c) if isinstance(c, vg.S) else None
            okz = False
            if r_ is not None:
                d_, op_ = r_
                n_ = vg.mk("sub", vg.mk("attr", vg.mk("param", "reward"), "shape"), vg.mk("param", "dim"))
                # integer n: n < 2  <=>  2 - n > 0  <=>  1 - n >= 0
                okz = (op_ == ">0" and d_ == nf.Poly.const(2) - nf.poly(n_)) or (op_ == ">=0" and d_ == nf.Poly.const(1) - nf.poly(n_))
        ctx.ob("C16.b", f"symnco.{nm}:degenerate-guard", okz, fi.loc, "returns 0 only when reward.shape[dim] < 2 (no shared baseline exists)", construct=f"{nm}:guard")
        ctx.ob("C16.b", f"symnco.{nm}", ok, fi.loc, why, construct=f"{nm}:formula")
        ctx.ob("C16.c", f"symnco.{nm}:shared-mean", okc, fi.loc, "baseline mean names its dim and keeps it (keepdim=True)", construct=f"{nm}:keepdim")
    # SharedBaseline
    sb = ctx.repo.get_class(BL, "SharedBaseline")
    fi = sb.methods["eval"]
    it = vg.Interp(ctx.repo, sb)
    fr = it.run_function(fi)
    a, b = first_of(fr.ret, it)
    okc = a is not None and a.op == "meth" and a.args[1] == "mean" and a.args[0].op == "param" and a.args[0].args[0] == "reward"
    if okc:
        kws = {k.args[0]: k.args[1] for k in a.args[2:] if k.op == "kw"}
        if nf.axis_arg(a) is not None:
            kws["dim"] = nf.axis_arg(a)
        okc = "dim" in kws and vg.is_const(kws.get("keepdims", kws.get("keepdim", vg.const(False))), True)
    ctx.ob("C16.c", "SharedBaseline.eval:shared-mean", bool(okc), fi.loc, "reward.mean(dim=on_dim, keepdims=True)", construct="SharedBaseline.eval:keepdim")
    # ---------------- PPO
    pp = ctx.repo.get_function(PPO, "PPO.shared_step")
    ctx.fn(pp)
    it = vg.Interp(ctx.repo, pp.cls, inline_policy=lambda f, a: False)
    fr = it.run_function(pp)
    L = {}

    def unwrap(v):
        while isinstance(v, vg.S):
            if v.op == "loop":
                v = v.args[1]
            elif v.op in ("phi", "ifexp") and any(isinstance(x, vg.S) and x.op == "undef" for x in v.args[1:]):
                v = [x for x in v.args[1:] if not (isinstance(x, vg.S) and x.op == "undef")][0]
            else:
                break
        return v

    def body(name):
        best = None
        for f in it.call_frames:
            v = f.locals.get(name)
            if isinstance(v, vg.S):
                best = unwrap(v)
        return best

    # the pieces are recovered from the value handed to manual_backward (not by local names):
    #   loss = -mean(min(ratio * adv, clamp(ratio, ..) * adv)) + c_v * huber(value_pred, R) - c_e * mean(entropy)
    mb = [e for e in it.events if e.kind == "selfcall" and e.data[1] == "manual_backward" and e.data[2]]
    if len(mb) != 1:
        raise AnalysisError(f"PPO.shared_step: expected one self.manual_backward(loss), found {len(mb)}")
    loss = unwrap(mb[0].data[2][0])
    adv = ratio = sl = vl = None
    pl0 = nf.poly(loss)
    raw_nodes = list(vg.walk(loss))
    mm = [a for a in raw_nodes if a.op == "meth" and a.args[1] == "mean" and nf._fn(nf.strip(a.args[0])) == "torch.min"]
    hub = [a for a in raw_nodes if nf._fn(a) == "torch.nn.functional.huber_loss"]
    if len(mm) == 1 and len(hub) == 1:
        sl = vg.mk("neg", mm[0])
        vl = hub[0]
        mn0 = nf.strip(mm[0].args[0])
        cand = [x for x in mn0.args[1:3] if isinstance(x, vg.S) and x.op == "*" and len(x.args) == 2]
        for x in cand:
            fac = list(x.args)
            has_exp = [any(nf._fn(n) == "torch.exp" for n in vg.walk(f_)) for f_ in fac]
            has_clamp = [any(nf._fn(n) == "torch.clamp" for n in vg.walk(f_)) for f_ in fac]
            if sum(has_exp) == 1 and not any(has_clamp):
                ratio = fac[has_exp.index(True)]
                adv = fac[1 - has_exp.index(True)]
    if any(x is None for x in (adv, ratio, sl, vl, loss)):
        ctx.ob("C16.b", "PPO.shared_step:clipped-surrogate", False, pp.loc,
               "the value given to manual_backward is not -mean(min(ratio * adv, clamp(ratio, ..) * adv)) + c_v * huber_loss(..) - c_e * mean(entropy): "
               f"{pl0.show(2)[:200]}", construct="PPO.shared_step:surrogate")
        return
    # advantage (before optional normalisation): previous_reward - value_pred.detach()
    adv_raw = adv
    while adv_raw.op in ("phi", "ifexp"):
        adv_raw = adv_raw.args[2]
    pa = nf.poly(adv_raw)
    ta = tainted(adv)
    ok_adv = not ta and len(pa.monos()) == 2 and sorted(c for c, _ in pa.monos()) == [-1, 1]
    ctx.ob("C16.a", "PPO.shared_step:advantage-detached", ok_adv, pp.loc,
           f"adv = {pa.show(3)}" + ("" if not ta else f" -- depends on {vg.show(ta[0], 3)} without detach"), construct="PPO.shared_step:advantage")
    # optional normalisation: (adv - mean(adv)) / (std(adv) + eps), eps > 0, applied iff ppo_cfg['normalize_adv']
    ok_n, why_n = True, "no normalisation branch"
    if adv.op in ("phi", "ifexp"):
        nrm = adv.args[1]
        raw_p = nf.poly(adv_raw)
        pn = nf.poly(nrm)
        recs = [a for a in pn.atoms() if a.op == "recip"]
        ok_n, why_n = False, f"normalised advantage {pn.show(2)[:120]}"
        if len(recs) == 1:
            den = nf.poly(recs[0].args[0]).monos()
            stds = [fs for c, fs in den if c == 1 and len(fs) == 1 and fs[0][0].op == "meth" and fs[0][0].args[1] == "std" and nf.poly(fs[0][0].args[0]) == raw_p and len(fs[0][0].args) == 2]
            eps = [c for c, fs in den if not fs]
            means = [a for a in pn.atoms() if a.op == "meth" and a.args[1] == "mean" and nf.poly(a.args[0]) == raw_p and len(a.args) == 2]
            if len(den) == 2 and len(stds) == 1 and len(eps) == 1 and eps[0] > 0 and len(means) == 1:
                ok_n = pn == (raw_p - nf.Poly.atom(means[0])) * nf.Poly.atom(recs[0])
        ok_n = ok_n and "normalize_adv" in vg.show(adv.args[0], 4) and adv.args[0].op not in ("not",)
    ctx.ob("C16.b", "PPO.shared_step:normalised-advantage", ok_n, pp.loc, "adv' = (adv - adv.mean()) / (adv.std() + eps), eps > 0, under ppo_cfg['normalize_adv']: " + why_n, construct="PPO.shared_step:normalise")
    ok_s, why_s = False, "surrogate structure not recognised"
    ps = nf.poly(sl)
    mon = ps.monos()
    if len(mon) == 1 and mon[0][0] == -1 and len(mon[0][1]) == 1:
        m = mon[0][1][0][0]
        if m.op == "meth" and m.args[1] == "mean":
            mn = nf.strip(m.args[0])
            if nf._fn(mn) == "torch.min" and len(mn.args) == 3:
                t1, t2 = nf.poly(mn.args[1]), nf.poly(mn.args[2])
                want1 = nf.poly(ratio) * nf.poly(adv)
                cl = [a for a in t2.atoms() if nf._fn(a) == "torch.clamp"]
                c_ok = False
                if len(cl) == 1 and t2 == nf.Poly.atom(cl[0]) * nf.poly(adv):
                    c = cl[0]
                    lo, hi = nf.poly(c.args[2]), nf.poly(c.args[3])
                    same_r = nf.poly(c.args[1]) == nf.poly(ratio)
                    eps_lo = nf.Poly.const(1) - lo
                    eps_hi = hi - nf.Poly.const(1)
                    c_ok = same_r and eps_lo == eps_hi and "clip_range" in eps_lo.show(6)
                ok_s = (t1 == want1) and c_ok
                why_s = f"-mean(min(ratio*adv: {t1 == want1}, clamp(ratio, 1-eps, 1+eps)*adv with one ratio/adv/eps: {c_ok}))"
    ctx.ob("C16.b", "PPO.shared_step:clipped-surrogate", ok_s, pp.loc, why_s, construct="PPO.shared_step:surrogate")
    # huber(value_pred, R) regresses the critic output that the advantage detaches, onto the reward the advantage starts from
    okv = False
    if nf._fn(vl) == "torch.nn.functional.huber_loss" and len(vl.args) >= 3:
        vp_, rw_ = nf.norm(vl.args[1]), nf.norm(vl.args[2])
        posm = [fs for c, fs in pa.monos() if c == 1 and len(fs) == 1]
        negm = [fs for c, fs in pa.monos() if c == -1 and len(fs) == 1]
        okv = len(posm) == 1 and len(negm) == 1 and posm[0][0][0] is rw_ and negm[0][0][0] is nf.norm(nf.strip(vl.args[1])) or \
            (len(posm) == 1 and len(negm) == 1 and posm[0][0][0] is rw_ and nf.norm(negm[0][0][0]) is vp_)
    ctx.ob("C16.b", "PPO.shared_step:value-loss", okv, pp.loc, "value_loss = huber_loss(value_pred, previous_reward)", construct="PPO.shared_step:value-loss")
    pl = nf.poly(loss)
    tm = pl.monos()
    ok_t = False
    if len(tm) == 3:
        surr = [1 for c, fs in tm if c == -1 and any(a.op == "meth" and a.args[1] == "mean" and nf._fn(nf.strip(a.args[0])) == "torch.min" for a, _ in fs)]
        val = [1 for c, fs in tm if c == 1 and any(nf._fn(a) == "torch.nn.functional.huber_loss" for a, _ in fs) and any("vf_lambda" in vg.show(a, 4) for a, _ in fs)]
        ent = [1 for c, fs in tm if c == -1 and any("entropy_lambda" in vg.show(a, 4) for a, _ in fs) and any(a.op == "meth" and a.args[1] == "mean" for a, _ in fs)]
        ok_t = len(surr) == 1 and len(val) == 1 and len(ent) == 1
    ctx.ob("C16.b", "PPO.shared_step:total-loss", ok_t, pp.loc, f"loss = surrogate + vf_lambda * value_loss - entropy_lambda * mean(entropy): {pl.show(2)[:160]}", construct="PPO.shared_step:total")


def symnco_total(ctx: Ctx):
    """C16.b SymNCO.shared_step: the loss handed to the optimiser is  loss_ps + beta * loss_ss + alpha * loss_inv  with each
    term individually replaced by 0 when its replication factor is off.  Read off the dict passed to out.update (the keys are
    the module's reporting API): poly(loss) == poly(loss_ps) + beta * poly(loss_ss) + alpha * poly(loss_inv), where the three
    summands are the very values reported under their keys (a conditional expression that swallows the other summands --
    `a if c else 0 + b + d` -- reports the same three values but another sum)."""
    cls = ctx.repo.get_class("rl4co/models/zoo/symnco/model.py", "SymNCO")
    fi = cls.methods.get("shared_step")
    if fi is None:
        raise AnalysisError("SymNCO.shared_step not found")
    ctx.fn(fi)
    it = vg.Interp(ctx.repo, cls, inline_policy=lambda f, a: False)
    it.run_function(fi)
    L = {}
    for e in it.events:
        if e.kind == "methcall" and e.data[1] == "update" and e.data[2] and isinstance(e.data[2][0], vg.S) and e.data[2][0].op == "dict":
            for it_ in e.data[2][0].args:
                if it_.op == "item" and it_.args[0].op == "const" and it_.args[0].args[0] in ("loss", "loss_ps", "loss_ss", "loss_inv"):
                    L[it_.args[0].args[0]] = it_.args[1]
    if set(L) != {"loss", "loss_ps", "loss_ss", "loss_inv"}:
        raise AnalysisError(f"SymNCO.shared_step: reported losses not found ({sorted(L)})")
    want = nf.poly(L["loss_ps"]) + nf.poly(vg.mk("selfattr", "beta")) * nf.poly(L["loss_ss"]) + nf.poly(vg.mk("selfattr", "alpha")) * nf.poly(L["loss_inv"])
    ok = nf.poly(L["loss"]) == want
    ctx.ob("C16.b", "SymNCO.shared_step:total-loss", ok, fi.loc,
           f"loss == loss_ps + beta * loss_ss + alpha * loss_inv (the reported summands): {ok}" + ("" if ok else f"; found {nf.poly(L['loss']).show(2)[:120]}"),
           construct="SymNCO.shared_step:total-loss")


def reinforce_variants(ctx: Ctx):
    """C16.b the REINFORCE subclasses that override calculate_loss keep the surrogate: MDAM (reward per path, baseline value
    unsqueezed to [batch, 1]) and PolyNet / Poppy (only the best rollout of each instance carries the gradient):
      loss = reinforce_loss + bl_loss,   reinforce_loss = -mean((reward - bl_val) * log_likelihood [* best-rollout indicator]),
    with the polynomial normal form of the product compared sign-exactly, bl_val taken from baseline.eval unless the batch
    carries `extra`, and PolyNet's indicator = (rank of the rollout by descending reward along the rollout axis) < 1."""
    for path, cname, masked in (("rl4co/models/zoo/mdam/model.py", "MDAM", False), ("rl4co/models/zoo/polynet/model.py", "PolyNet", True)):
        cls = ctx.repo.get_class(path, cname)
        fi = cls.methods.get("calculate_loss")
        if fi is None:
            raise AnalysisError(f"{cname}.calculate_loss not found")
        ctx.fn(fi)
        it = vg.Interp(ctx.repo, cls, inline_policy=lambda f, a: False)
        fr = it.run_function(fi)
        L = dict(fr.locals)
        for e in it.events:
            if e.kind == "methcall" and e.data[1] == "update" and e.data[2] and isinstance(e.data[2][0], vg.S) and e.data[2][0].op == "dict":
                for it_ in e.data[2][0].args:
                    if it_.op == "item" and it_.args[0].op == "const":
                        L[it_.args[0].args[0]] = it_.args[1]
        need = ("loss", "reinforce_loss", "bl_loss", "bl_val", "reward", "log_likelihood")
        if not all(isinstance(L.get(k), vg.S) for k in need):
            ctx.ob("C16.b", f"{cname}.calculate_loss", False, fi.loc, f"values not resolved: {[k for k in need if not isinstance(L.get(k), vg.S)]}", construct=f"{cname}.calculate_loss:formula")
            continue
        okl = nf.poly(L["loss"]) == nf.poly(L["reinforce_loss"]) + nf.poly(L["bl_loss"])
        mon = nf.poly(L["reinforce_loss"]).monos()
        sign_ok = prod_ok = mask_ok = False
        mask_ok = not masked
        if len(mon) == 1 and len(mon[0][1]) == 1:
            sign_ok = mon[0][0] == -1
            m = mon[0][1][0][0]
            if m.op == "meth" and m.args[1] == "mean" and len(m.args) == 2:
                pin = nf.poly(m.args[0])
                want = (nf.poly(L["reward"]) - nf.poly(L["bl_val"])) * nf.poly(L["log_likelihood"])
                extra_f = [a_ for a_ in pin.atoms() if a_.id not in {b_.id for b_ in want.atoms()}]
                if masked and len(extra_f) == 1:
                    # the one factor beyond advantage and log-likelihood (found in the product itself, not by its local name)
                    want = want * nf.Poly.atom(extra_f[0])
                    c = nf.cmpnf(nf.strip(extra_f[0], True))
                    if c is not None:
                        d, op = c
                        ats = d.atoms()
                        if len(ats) == 1:
                            a0 = ats[0]
                            lin = (op == ">0" and d == nf.Poly.const(1) - nf.Poly.atom(a0)) or (op == ">=0" and d == -nf.Poly.atom(a0)) or (op == "==0" and d == nf.Poly.atom(a0))
                            inner = nf.strip(a0.args[0]) if a0.op == "meth" and a0.args[1] == "argsort" and nf.axis_is(a0, 1) else None
                            src = nf.strip(inner.args[0]) if inner is not None and inner.op == "meth" and inner.args[1] == "argsort" and nf.axis_is(inner, 1) else None
                            desc = src is not None and nf.poly(src) == -nf.poly(L["reward"])
                            mask_ok = bool(lin and desc)
                prod_ok = pin == want
        ok = okl and sign_ok and prod_ok and mask_ok
        ctx.ob("C16.b", f"{cname}.calculate_loss", ok, fi.loc,
               f"loss = reinforce_loss + bl_loss: {okl}; reinforce_loss = -mean(.): {sign_ok}; (reward - bl_val) * log_likelihood" + (" * best-rollout indicator" if masked else "") + f": {prod_ok}" +
               (f"; indicator = rank by descending reward along the rollout axis < 1: {mask_ok}" if masked else ""), construct=f"{cname}.calculate_loss:formula")
        blv = L.get("bl_val")
        okb = any(n.op in ("phi", "ifexp") and "extra" in vg.show(n.args[0], 3) and any(m_.op == "meth" and m_.args[1] == "eval" for m_ in vg.walk(n.args[1])) for n in vg.walk(blv))
        ctx.ob("C16.b", f"{cname}.calculate_loss:baseline-source", okb, fi.loc, "bl_val, bl_loss = baseline.eval(td, reward, env) unless the batch carries 'extra'", construct=f"{cname}.calculate_loss:baseline-source")


def _names(s, L):
    out = set()
    for k, v in L.items():
        if v is s:
            out.add(k)
    return out


def critic_value_shape(ctx: Ctx):
    """C16.f the bundled critic returns ONE value per instance as a [batch, 1] column: PPO pairs it with `reward.view(-1, 1)`
    (advantage = reward - value, huber(value, reward)) and the critic baseline squeezes it.  Rank lineage of the default path
    of CriticNetwork.forward: encoder output [batch, nodes, embed] (rank 3), the value head keeps the rank (Linear / ReLU),
    and every reduction / squeeze lowers it by one -- the returned value must have rank 2.  A [batch] vector broadcasts
    against the [batch, 1] reward to a [batch, batch] table that pairs every instance with every other instance's value."""
    import ast
    cls = ctx.repo.get_class("rl4co/models/rl/common/critic.py", "CriticNetwork")
    fi = cls.methods.get("forward")
    if fi is None:
        raise AnalysisError("CriticNetwork.forward not found")
    ctx.fn(fi)
    # default path: the branch taken when `self.customized` is False
    branch = None
    for n in ast.walk(fi.node):
        if isinstance(n, ast.If) and "customized" in ast.unparse(n.test):
            t, neg = n.test, False
            while isinstance(t, ast.UnaryOp) and isinstance(t.op, ast.Not):
                t, neg = t.operand, not neg
            branch = n.body if neg else n.orelse
    if not branch:
        raise AnalysisError("CriticNetwork.forward: default (not customized) branch not found")
    env = {}

    def rank(e):
        if isinstance(e, ast.Name):
            return env.get(e.id)
        if isinstance(e, ast.Call) and isinstance(e.func, ast.Attribute):
            base = e.func.value
            a = e.func.attr
            if isinstance(base, ast.Name) and base.id == "self" and a == "value_head":
                return rank(e.args[0]) if e.args else None          # Linear / ReLU stack: rank preserved
            r = rank(base)
            if r is None:
                return None
            if a in ("mean", "sum", "max", "min", "amax", "amin", "squeeze"):
                kd = [k for k in e.keywords if k.arg in ("keepdim", "keepdims") and isinstance(k.value, ast.Constant) and k.value.value is True]
                if a == "squeeze" and not e.args and not e.keywords:
                    return None                                   # dimension-less squeeze: rank depends on the sizes
                return r if kd else r - 1
            if a == "unsqueeze":
                return r + 1
            if a in ("view", "reshape"):
                return len(e.args) if e.args and not any(isinstance(x, ast.Starred) for x in e.args) else None
            if a in ("float", "clone", "contiguous", "to", "detach"):
                return r
        if isinstance(e, ast.Attribute) and e.attr == "values":
            return rank(e.value)
        return None
    out = None
    for st in branch:
        if isinstance(st, ast.Assign):
            tg = st.targets[0]
            if isinstance(tg, ast.Tuple) and isinstance(st.value, ast.Call) and "encoder" in ast.unparse(st.value.func):
                if tg.elts and isinstance(tg.elts[0], ast.Name):
                    env[tg.elts[0].id] = 3                         # h: [batch, nodes, embed]
            elif isinstance(tg, ast.Name):
                if isinstance(st.value, ast.Call) and "encoder" in ast.unparse(st.value.func):
                    env[tg.id] = 3
                else:
                    env[tg.id] = rank(st.value)
        if isinstance(st, ast.Return) and st.value is not None:
            out = rank(st.value)
    ok = out == 2
    ctx.ob("C16.f", "CriticNetwork.forward:value-is-a-[batch,1]-column", ok, fi.loc,
           f"rank of the returned value on the default path: {out} (encoder output 3, value head keeps it, each reduction / squeeze lowers it)" +
           ("" if ok else " -- PPO subtracts it from reward.view(-1, 1): a rank-1 value broadcasts to [batch, batch]"),
           construct="CriticNetwork.forward:value-rank")


def differentiable_helpers(ctx: Ctx):
    """C16.e the helpers whose results enter a loss with gradient -- log-likelihood, step log-probabilities, entropy -- are not
    evaluated under torch.no_grad / inference_mode (decorator or a with-block around the whole body): a no_grad entropy still
    shows up in the loss VALUE but sends no gradient to the policy."""
    import ast
    targets = [("rl4co/utils/ops.py", "calculate_entropy"), ("rl4co/utils/decoding.py", "get_log_likelihood"), ("rl4co/utils/decoding.py", "process_logits"),
               ("rl4co/utils/ops.py", "gather_by_index")]
    for path, name in targets:
        fi = ctx.repo.get_function(path, name)
        ctx.fn(fi)
        decos = [ast.unparse(d) for d in fi.node.decorator_list if any(k in ast.unparse(d) for k in ("no_grad", "inference_mode", "enable_grad(False"))]
        body = [b for b in fi.node.body if not (isinstance(b, ast.Expr) and isinstance(b.value, ast.Constant))]
        whole_with = len(body) == 1 and isinstance(body[0], ast.With) and any(k in ast.unparse(body[0].items[0].context_expr) for k in ("no_grad", "inference_mode"))
        detached_ret = any(isinstance(n, ast.Return) and n.value is not None and isinstance(n.value, ast.Call) and isinstance(n.value.func, ast.Attribute) and n.value.func.attr == "detach" for n in ast.walk(fi.node))
        ok = not decos and not whole_with and not detached_ret
        ctx.ob("C16.e", f"{name}:differentiable", ok, fi.loc,
               "evaluated with gradient tracking" if ok else f"runs under {decos or 'a no_grad block / returns a detached value'}: its result carries no gradient into the loss it is part of",
               construct=f"{name}:no-grad")


def run_thorough(ctx: Ctx):
    from ..selftest.corpus import for_prop
    from ..selftest.runner import run_corpus
    run_corpus(ctx, for_prop("C16"))
