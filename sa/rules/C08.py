"""C08 -- selection environments pick exactly the quota of distinct, allowed items.

C08.a  quota: `done` is  i - quota + 1 >= 0  on the pre-increment counter and the counter is
       incremented by exactly one per step  (FLP, MCP, DPP, MDPP)
C08.b  distinctness: the mask written by _step is (old mask | ~chosen') with the chosen entry
       switched off -- computed from the *updated* selection
C08.c  forbidden items: at reset the mask starts from the instance's allowed set (DPP keep-out)
       and additionally excludes probing ports (MDPP); the step never re-opens an entry
C08.d  displayed bookkeeping (FLP distances, MCP weights/membership) is recomputed from the
       updated selection and the listed inputs
"""
from __future__ import annotations

from .. import nf, vg
from ..core import Ctx
from ..envs import EnvA
from ..model import AnalysisError
from ..tables import routing as T
from .C02 import rule_c as quota_rule

FLOOR = 52
EXPLANATION = (
    "Static def-use/normal-form analysis of FLPEnv, MCPEnv, DPPEnv, MDPPEnv (_reset/_step): finishing test on the "
    "pre-increment counter against the quota, counter +1 per step, mask derived from the updated selection with the chosen "
    "entry closed (monotone down), reset mask starting from the instance's allowed set and excluding probe ports, and the "
    "incremental features depending on the updated selection and the original data. Structural necessary conditions for "
    "every selection order; value equality of the incremental features is not decided."
)
RULE = "one obligation per (env, clause)"

SEL = {"FLPEnv": "chosen", "MCPEnv": "chosen"}
BOOK = {
    "FLPEnv": {"distances": ({"orig_distances", "chosen", "action"}, {"distances"})},
    "MCPEnv": {"weights": ({"weights", "membership", "chosen", "action"}, set()), "membership": ({"membership", "chosen", "action"}, set())},
}


def derived_from_generator(ctx: Ctx):
    """C08.e (all env classes): an attribute that an ancestor's __init__ copies from `self.generator` (a quota, a size, data
    tensors) belongs to THAT generator.  A subclass that calls super().__init__ and then installs another generator must copy
    those attributes again, otherwise the env keeps the quota / data of the ancestor's default generator."""
    import ast as _ast
    n_sub = 0
    for cname, path in T.ALL_ENVS.items():
        env = EnvA(ctx.repo, path, cname)
        cls = env.cls
        ini = cls.methods.get("__init__")
        if ini is None:
            continue
        body = ini.node.body
        sup_i = [i for i, st in enumerate(body) if any(isinstance(n, _ast.Call) and isinstance(n.func, _ast.Attribute) and n.func.attr == "__init__" and isinstance(n.func.value, _ast.Call)
                                                       and getattr(n.func.value.func, "id", "") == "super" for n in _ast.walk(st))]
        gen_i = [i for i, st in enumerate(body) if isinstance(st, _ast.Assign) and any(isinstance(t, _ast.Attribute) and t.attr == "generator" and isinstance(t.value, _ast.Name) and t.value.id == "self"
                                                                                         for t in st.targets)]
        if not sup_i or not gen_i or gen_i[-1] < sup_i[0]:
            continue
        # attributes the ancestors derive from self.generator
        derived = {}
        for c in ctx.repo.mro(cls)[1:]:
            if isinstance(c, str) or c.name == "RL4COEnvBase":
                continue
            pin = c.methods.get("__init__")
            if pin is None:
                continue
            for st in pin.node.body:
                if isinstance(st, _ast.Assign) and len(st.targets) == 1 and isinstance(st.targets[0], _ast.Attribute) and isinstance(st.targets[0].value, _ast.Name) and st.targets[0].value.id == "self":
                    reads_gen = any(isinstance(n, _ast.Attribute) and isinstance(n.value, _ast.Attribute) and n.value.attr == "generator" and isinstance(n.value.value, _ast.Name)
                                    and n.value.value.id == "self" for n in _ast.walk(st.value))
                    if reads_gen and st.targets[0].attr != "generator":
                        derived.setdefault(st.targets[0].attr, c.name)
        if not derived:
            continue
        n_sub += 1
        ctx.fn(ini)
        redone = {st.targets[0].attr for st in body[gen_i[-1] + 1:] if isinstance(st, _ast.Assign) and len(st.targets) == 1 and isinstance(st.targets[0], _ast.Attribute)
                  and isinstance(st.targets[0].value, _ast.Name) and st.targets[0].value.id == "self"
                  and any(isinstance(n, _ast.Attribute) and isinstance(n.value, _ast.Attribute) and n.value.attr == "generator" for n in _ast.walk(st.value))}
        stale = sorted(set(derived) - redone)
        ctx.ob("C08.e", f"{cname}.__init__:generator-derived-attributes", not stale, ini.loc,
               f"after replacing self.generator, {cname}.__init__ copies again {sorted(redone)}" if not stale else
               f"{cname}.__init__ installs its own generator after super().__init__(), but {stale} (copied from self.generator by {sorted(set(derived[a] for a in stale))}.__init__) are not "
               f"copied again: the env keeps the values of the ancestor's DEFAULT generator (e.g. the quota max_decaps) whatever generator_params say",
               construct=f"{cname}.__init__:stale:" + ",".join(stale))
    return n_sub


def generated_masks(ctx: Ctx):
    """C08.f DPP / MDPP generators: the availability mask of a generated instance starts all-open and is only ever CLOSED
    (scatter with the constant False) -- at the probe and at every keep-out cell -- and the probe reported under `probe` is the
    very index (DPP) / is marked True at the very indices (MDPP) that were closed."""
    from ..envs import generator_slot
    for cname in ("DPPEnv", "MDPPEnv"):
        env = EnvA(ctx.repo, T.ALL_ENVS[cname], cname)
        g, gsl = generator_slot(ctx.repo, env.cls)
        if gsl is None or not isinstance(gsl.fr.ret, vg.TD):
            raise AnalysisError(f"{cname}: generator not analysable")
        ctx.fn(gsl.fi)
        am, pr = gsl.fr.ret.cells.get("action_mask"), gsl.fr.ret.cells.get("probe")
        if am is None or pr is None:
            raise AnalysisError(f"{cname}: generator does not emit action_mask / probe")

        def parts(n):
            """(index, value) of x.scatter(dim, index, value) in positional or keyword spelling"""
            pos = [a for a in n.args[2:] if not (isinstance(a, vg.S) and a.op == "kw")]
            kw = {a.args[0]: a.args[1] for a in n.args[2:] if isinstance(a, vg.S) and a.op == "kw"}
            names = ["dim", "index", "value"]
            got = dict(zip(names, pos))
            for k_, v_ in kw.items():
                got["value" if k_ in ("value", "src") else k_] = v_
            return got.get("index"), got.get("value")

        def scatters(root):
            # the iterator of a `for ... in zip(mask, picks)` loop is data the loop reads, not part of the written tensor's history
            return [n for n in vg.walk(root, stop=lambda z: z.op == "iter") if n.op == "meth" and n.args[1] in ("scatter", "scatter_") and all(x is not None for x in parts(n))]
        sc = scatters(am)
        vals = [parts(n)[1] for n in sc]
        closes = all(vg.is_const(v) and v.args[0] is False for v in vals)
        opens_all = any(nf._fn(n) == "torch.ones" for n in vg.walk(am)) and not any(nf._fn(n) == "torch.zeros" for n in vg.walk(am))
        want = 2 if cname == "DPPEnv" else 3
        ok = closes and opens_all and len({n.id for n in sc}) >= want
        ctx.ob("C08.f", f"{g.name}:mask-only-closes", ok, gsl.where,
               f"{len({n.id for n in sc})} scatter(s) on the all-True mask (need >= {want}: probe, keep-out" + (", probes" if want == 3 else "") + f"), every written value is False: {closes}",
               construct=f"{g.name}._generate:mask-only-closes")
        idx_closed = {nf.strip(parts(n)[0]).id for n in sc} | {parts(n)[0].id for n in sc}
        if cname == "DPPEnv":
            pnodes = {x.id for x in vg.walk(pr) if nf._fn(x) == "torch.randint"}
            okp = bool(pnodes & idx_closed)
            whyp = "the reported probe is the index that was closed in the mask"
        else:
            ps = scatters(pr)
            okp = bool(ps) and all(vg.is_const(parts(n)[1]) and parts(n)[1].args[0] is True for n in ps) and all((parts(n)[0].id in idx_closed or nf.strip(parts(n)[0]).id in idx_closed) for n in ps)
            whyp = "the probe map is set True exactly at indices that are closed in the mask"
        ctx.ob("C08.f", f"{g.name}:probe-is-closed", okp, gsl.where, whyp + f": {okp}", construct=f"{g.name}._generate:probe-closed")


def run(ctx: Ctx):
    generated_masks(ctx)
    n_derived = derived_from_generator(ctx)
    ctx.extra["envs_replacing_an_inherited_generator"] = n_derived
    n = 0
    for cname in ("FLPEnv", "MCPEnv", "DPPEnv", "MDPPEnv"):
        env = EnvA(ctx.repo, T.ALL_ENVS[cname], cname)
        sl = env.slot("_step")
        rs = env.slot("_reset")
        for s_ in (sl, rs):
            ctx.fn(s_.fi)
            if s_.problems():
                raise AnalysisError(f"{cname}: unhandled constructs {s_.problems()[:3]}")
        # ---- a: quota
        before = len(ctx.obligations)
        quota_rule(ctx, env)
        for o in ctx.obligations[before:]:
            o.rule = "C08.a"
        # ---- b: mask from the updated selection, chosen entry closed
        am = sl.cell("action_mask")
        if am is None:
            raise AnalysisError(f"{cname}._step: no action_mask")
        leaves = nf.boolwalk(am, {"chosen", "action_mask"})
        if cname in SEL:
            key = SEL[cname]
            newsel = sl.cell(key)
            uses_new = any(n_.id == newsel.id for n_ in vg.walk(am)) and newsel.op != "cell0"
            old_neg = [l for l in leaves if _cell(l.node) == key and l.sign < 0 and l.conj]
            # value written at the chosen entry, for an instance that is still choosing (not done before this step)
            sv = nf.strip(newsel)
            stored = sv.args[2] if sv.op == "store" and "action" in vg.cells_of(sv.args[1]) else None

            def _assume(done_v, old_v):
                def a_(n_):
                    x_ = nf.strip(n_, True)
                    while x_.op == "sub" or (x_.op == "meth" and x_.args[1] in ("reshape", "view", "squeeze", "unsqueeze", "clone", "flatten")):
                        x_ = nf.strip(x_.args[0], True)
                    if x_.op == "cell0" and x_.args[1] == "done":
                        return done_v
                    if x_.op == "cell0" and x_.args[1] == key:
                        return old_v
                    return None
                return a_
            switched_on = stored is not None and nf.kleene(stored, _assume(False, None)) is True
            forced = [1] if switched_on and any(p[0] == "set" and "action" in vg.cells_of(p[1]) for l in leaves for p in l.part) else []
            ok = uses_new and bool(old_neg) and bool(forced)
            ctx.ob("C08.b", f"{cname}._step:mask", ok, sl.where,
                   f"action_mask' = ~chosen' with chosen' = chosen[action] := True  (uses updated selection: {uses_new}; old selections stay closed: {bool(old_neg)}; chosen entry closed: {bool(forced)})",
                   construct=f"{sl.fi.qualname}:mask-from-selection")
            # chosen' monotone up at the action
            cl = nf.boolwalk(newsel, {"chosen"})
            up = any(_cell(l.node) == key and l.sign > 0 for l in cl) and switched_on
            ctx.ob("C08.b", f"{cname}._step:{key}", up, sl.where, f"{key}' keeps earlier selections and switches the chosen entry on (for an instance that was not finished before the step)", construct=f"{sl.fi.qualname}:{key}:monotone")
            # an instance that already has its quota is still stepped while its batch-mates run (feasible padding actions): those
            # steps must not add to the selection -- the reward counts every selected item
            frozen = stored is not None and nf.kleene(stored, _assume(True, False)) is False
            ctx.ob("C08.h", f"{cname}._step:{key}:frozen-once-finished", frozen, sl.where,
                   f"value written at the chosen entry = {vg.show(stored, 3)[:90] if stored is not None else None}: for a finished instance it stays as it was -- {frozen}" +
                   ("" if frozen else "; padding steps keep selecting, so an instance with a smaller quota ends with more items than its quota and a reward that depends on its batch-mates"),
                   construct=f"{sl.fi.qualname}:{key}:padding-selects")
        else:
            old_pos = [l for l in leaves if _cell(l.node) == "action_mask" and l.sign > 0 and l.conj]
            sel = [l for l in leaves if l.node.op == "selected" and "action" in vg.cells_of(l.node) and l.sign < 0 and l.conj]
            ok = bool(old_pos) and bool(sel) and len(leaves) == 2
            ctx.ob("C08.b", f"{cname}._step:mask", ok, sl.where,
                   "action_mask' = action_mask & ~onehot(action)" + ("" if ok else f"; found {[str(l) for l in leaves][:4]}"),
                   construct=f"{sl.fi.qualname}:mask-scatter")
        # ---- c: reset mask
        ram = rs.cell("action_mask")
        if ram is None:
            raise AnalysisError(f"{cname}._reset: no action_mask")
        rl = nf.boolwalk(ram, {"action_mask", "probe"})
        if cname in ("DPPEnv", "MDPPEnv"):
            inst = [l for l in rl if _cell(l.node) == "action_mask" and l.sign > 0 and l.conj]
            ctx.ob("C08.c", f"{cname}._reset:allowed-set", bool(inst), rs.where, "reset mask is confined to the instance's allowed cells (keep-out excluded)",
                   construct=f"{rs.fi.qualname}:allowed-set")
            ko = rs.cell("keepout")
            kl = nf.boolwalk(ko, {"action_mask", "probe"}) if ko is not None else []
            okk = len(kl) == 1 and _cell(kl[0].node) == "action_mask" and kl[0].sign < 0
            ctx.ob("C08.c", f"{cname}._reset:keepout", okk, rs.where, "keepout = ~(instance action_mask), taken before probes are removed",
                   construct=f"{rs.fi.qualname}:keepout")
        if cname == "MDPPEnv":
            pr = [l for l in rl if _cell(l.node) == "probe" and l.sign < 0 and l.conj]
            ctx.ob("C08.c", f"{cname}._reset:probe-excluded", bool(pr), rs.where, "probing ports are excluded from the mask", construct=f"{rs.fi.qualname}:probe")
        if cname in SEL:
            okr = nf.kleene(ram, lambda n_: None) is True
            ctx.ob("C08.c", f"{cname}._reset:all-open", okr, rs.where, "every item is selectable at reset", construct=f"{rs.fi.qualname}:all-open")
        # ---- g: the step writes its mask into a tensor of its own: an in-place update of the incoming mask (`scatter_`, `x[idx] = ..`
        #         on td["action_mask"] itself) changes the previous state -- and the instance, when _reset passed its mask through
        from .C09 import bases as _bases, is_clone as _is_clone
        stale_ = [b for b in _bases(am) if nf.strip(b).op == "cell0" and not _is_clone(b)]
        ctx.ob("C08.g", f"{cname}._step:mask:written-out-of-place", not stale_, sl.where,
               "action_mask' is a new tensor (out-of-place scatter / boolean expression / clone)" if not stale_ else
               f"action_mask' is {vg.show(stale_[0], 2)} updated IN PLACE: stepping rewrites the mask of the previous state and of the stored instance",
               construct=f"{sl.fi.qualname}:mask:in-place")
        if cname in SEL:
            from .C09 import bases, is_clone
            key = SEL[cname]
            r0 = rs.cell(key)
            x = nf.strip(r0) if r0 is not None else None
            fresh = x is not None and not vg.cells_of(x) - {"locs", "membership", "weights", "distances", "orig_distances"} and \
                (nf._fn(x) in ("torch.zeros", "torch.zeros_like") or (nf._fn(x) in ("torch.full", "torch.full_like") and vg.is_const(x.args[-1] if x.args[-1].op != "kw" else x.args[-1].args[1], False)))
            from_inst = x is not None and key in vg.cells_of(x)
            ctx.ob("C08.g", f"{cname}._reset:{key}:starts-empty", fresh and not from_inst, rs.where,
                   f"{key} at reset = {vg.show(x, 3)[:80] if x is not None else None}: a fresh all-False tensor -- {fresh and not from_inst}" +
                   ("" if fresh and not from_inst else "; a selection taken over from the instance carries the picks of earlier episodes (and lets _step write into instance data)"),
                   construct=f"{rs.fi.qualname}:{key}:starts-empty")
            bs_ = bases(sl.cell(key))
            own = all(is_clone(b) or not vg.cells_of(b) for b in bs_)
            ctx.ob("C08.g", f"{cname}._step:{key}:written-on-a-copy", own, sl.where,
                   f"{key}' is built on {[vg.show(b, 2)[:40] for b in bs_]}: a clone of the previous selection -- {own}" +
                   ("" if own else "; the in-place store changes the tensor of the previous state (and of the instance, if reset passed it through)"),
                   construct=f"{sl.fi.qualname}:{key}:in-place")
        # ---- d: bookkeeping
        for key, (need, forbid) in BOOK.get(cname, {}).items():
            v = sl.cell(key)
            have = vg.cells_of(v) if v is not None else set()
            miss, bad = need - have, forbid & have
            ctx.ob("C08.d", f"{cname}._step:{key}", not miss and not bad, sl.where,
                   f"{key}' depends on {sorted(have)}" + (f"; missing {sorted(miss)}" if miss else "") + (f"; reads the mutated {sorted(bad)}" if bad else ""),
                   construct=f"{sl.fi.qualname}:{key}:bookkeeping")
            newsel = sl.cell(SEL[cname])
            uses_new = v is not None and any(n_.id == newsel.id for n_ in vg.walk(v))
            ctx.ob("C08.d", f"{cname}._step:{key}:updated-selection", uses_new, sl.where,
                   f"{key}' is computed from the updated selection" if uses_new else f"{key}' is computed from the selection *before* this step (one step late)",
                   construct=f"{sl.fi.qualname}:{key}:stale-selection")
        if cname == "FLPEnv":
            from .C03 import flp_masked_min
            flp_masked_min(ctx, "C08.d", "FLPEnv._step:distances", sl.cell("distances"), sl.where)
        if cname == "MCPEnv":
            # direction of the bookkeeping: `membership` shows the REMAINING sets (chosen enters negatively), and the item weights
            # shown are those still uncovered: weights' = weights * (1 - covered) with covered an indicator (count > 0)
            mv = sl.cell("membership")
            pol = nf.polarity(mv) if mv is not None else {}
            okm = pol.get("chosen") == {-1} and pol.get("membership") == {1}
            ctx.ob("C08.d", "MCPEnv._step:membership:remaining-sets", okm, sl.where,
                   f"membership' grows with membership and shrinks with the selection: signs {dict((k, sorted(v)) for k, v in pol.items() if k in ('chosen', 'membership'))}",
                   construct=f"{sl.fi.qualname}:membership:direction")
            wv = sl.cell("weights")
            okw, whyw = False, "weights' is not weights * (1 - covered)"
            if wv is not None:
                pw = nf.poly(wv)
                terms = list(pw.terms.items())
                if len(terms) == 2:
                    pure = [(m_, c_) for m_, c_ in terms if len(m_) == 1]
                    mixed = [(m_, c_) for m_, c_ in terms if len(m_) == 2]
                    if len(pure) == 1 and len(mixed) == 1 and pure[0][1] == 1 and mixed[0][1] == -1:
                        a_w = nf.Poly.ATOMS[pure[0][0][0][0]]
                        others = [nf.Poly.ATOMS[a_] for a_, _ in mixed[0][0] if nf.Poly.ATOMS[a_] is not a_w]
                        is_w = nf.strip(a_w).op == "cell0" and nf.strip(a_w).args[1] == "weights"
                        ind = False
                        if len(others) == 1:
                            x_ = nf.strip(others[0], True)
                            while x_.op == "meth" and x_.args[1] in ("float", "to", "long", "int", "double"):
                                x_ = nf.strip(x_.args[0], True)
                            c_ = nf.cmpnf(x_)
                            # a POSITIVE count: the counted quantity enters the comparison with a + sign (`count < 0` has the same shape and is never true)
                            pos_ = c_ is not None and any(m__ for m__ in c_[0].terms) and all(cf_ > 0 for m__, cf_ in c_[0].terms.items() if m__)
                            ind = c_ is not None and pos_ and ((c_[1] == ">0" and c_[0].const_term() == 0) or (c_[1] == ">=0" and c_[0].const_term() == -1))
                        okw = is_w and ind
                        whyw = f"weights' = weights - weights * [count of chosen sets containing the item > 0]: weights cell {is_w}, indicator of a positive count {ind}"
            ctx.ob("C08.d", "MCPEnv._step:weights:uncovered-only", okw, sl.where, whyw, construct=f"{sl.fi.qualname}:weights:formula")
        ctx.sample({"env": cname, "mask_literals": [str(l) for l in leaves][:4]})
    rows_decided_per_instance(ctx)
    from .C01 import torchrl_preset_never_overrides
    torchrl_preset_never_overrides(ctx, "C08.k")
    from .C03 import exact_distances
    exact_distances(ctx, "C08.j", [("rl4co/envs/graph/flp/env.py", "FLPEnv._step"), ("rl4co/envs/graph/flp/env.py", "FLPEnv._reset"),
                                   ("rl4co/envs/graph/flp/generator.py", "FLPGenerator._generate")])


def rows_decided_per_instance(ctx: Ctx):
    """C08.i the quota comparison, the selection and the bookkeeping of one instance are computed from that instance's own row:
    the other C08 rules read `_step` row by row, and this discharges that premise with the batch-axis engine of C04 (a [batch]
    quota compared with a [batch, 1] counter broadcasts to a [batch, batch] table in which instance 0's quota ends everybody's
    episode; a reduction over the batch axis; a row pick).  Sinks: every state cell written by `_step` and `_reset` of the four
    selection environments."""
    from .C04 import batch_rows
    batch_rows(ctx, "C08.i", envs=("FLPEnv", "MCPEnv", "DPPEnv", "MDPPEnv"), meths=("_reset", "_step"))


def _cell(n):
    n = nf.strip(n, bool_ctx=True)
    while n.op == "sub":
        n = nf.strip(n.args[0], bool_ctx=True)
    return n.args[1] if n.op == "cell0" else None


def run_thorough(ctx: Ctx):
    from ..selftest.corpus import for_prop
    from ..selftest.runner import run_corpus
    run_corpus(ctx, for_prop("C08"))
