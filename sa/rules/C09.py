"""C09 -- improvement environments keep best-so-far bookkeeping exact.  Decided clauses
(for TSPkoptEnv and PDPRuinRepairEnv):

C09.a  no aliasing: the best tour / best cost stored by _reset are clones of the current ones;
       the next tour built by _step (local operator or externally supplied solution) starts
       from a clone; the best tour is updated only through a row-indexed copy
C09.b  best-so-far algebra: cost_bsf' = where(new < bsf, new, bsf) (strict), reward = bsf - bsf',
       best-tour rows replaced exactly where reward > 0, from the tour stored as rec_current
C09.c  cost_current' is the cost of the very tour stored as rec_current'; get_costs sums the
       successor-edge lengths over the node axis
C09.d  visited_time is rebuilt from that same tour
C09.e  flat move indices are decoded with // and % by the sequence length (DACT, N2S policies)
"""
from __future__ import annotations

import ast

from .. import nf, vg
from ..core import Ctx
from ..envs import EnvA
from ..model import AnalysisError

FLOOR = 29
EXPLANATION = (
    "Static def-use analysis of TSPkoptEnv / PDPRuinRepairEnv _reset and _step (get_costs and _local_operator inlined): "
    "clone discipline of best-so-far state, where/strict-comparison algebra of the best cost, reward as its decrease, "
    "row-indexed best-tour update at reward > 0 from the stored current tour, cost and visited_time computed from that same "
    "tour, // and % decode of flat move indices. Decides bookkeeping structure for every move sequence; that the linked-list "
    "surgery yields a single cycle for every node position is a runtime index-pattern property and is not decided."
)
RULE = "one obligation per (env, clause)"

ENVS = {"TSPkoptEnv": "rl4co/envs/routing/tsp/env.py", "PDPRuinRepairEnv": "rl4co/envs/routing/pdp/env.py"}


def bases(s, depth=0):
    """Objects a (possibly in-place modified) tensor value is built on."""
    if depth > 60 or not isinstance(s, vg.S):
        return {s}
    if s.op == "nograd":
        return bases(s.args[0], depth + 1)
    if s.op in ("phi", "ifexp"):
        return bases(s.args[1], depth + 1) | bases(s.args[2], depth + 1)
    if s.op == "loop":
        return bases(s.args[0], depth + 1) | bases(s.args[1], depth + 1)
    if s.op == "loopvar":
        return bases(s.args[1], depth + 1)
    if s.op == "store":
        return bases(s.args[0], depth + 1)
    if s.op == "meth" and s.args[1].endswith("_") and not s.args[1].startswith("__"):
        return bases(s.args[0], depth + 1)
    return {s}


def is_clone(s) -> bool:
    return isinstance(s, vg.S) and s.op == "meth" and s.args[1] == "clone"


def run(ctx: Ctx):
    ruin_repair_mask(ctx)
    for cname, path in ENVS.items():
        env = EnvA(ctx.repo, path, cname)
        rs, st = env.slot("_reset"), env.slot("_step")
        for sl in (rs, st):
            ctx.fn(sl.fi)
            if sl.problems():
                raise AnalysisError(f"{cname}: unhandled constructs {sl.problems()[:3]}")
            for f in sl.it.call_frames:
                if f.func is not None:
                    ctx.fn(f.func)
        # ---------------- a: aliasing
        for best, cur in (("rec_best", "rec_current"), ("cost_bsf", "cost_current")):
            b, c = rs.cell(best), rs.cell(cur)
            if b is None or c is None:
                raise AnalysisError(f"{cname}._reset: {best}/{cur} not written")
            ok = b is not c and is_clone(nf.strip(b) if nf.strip(b).op == "meth" and nf.strip(b).args[1] == "clone" else b) or (b.op == "meth" and b.args[1] == "clone")
            ok = bool(ok) and (b.args[0] is c if b.op == "meth" else False)
            ctx.ob("C09.a", f"{cname}._reset:{best}=clone({cur})", ok, rs.where,
                   f"{best} = {vg.show(b, 2)}" + ("" if ok else f": must be `{cur}.clone()` -- otherwise the best-so-far state aliases the current state and is overwritten by later moves"),
                   construct=f"{rs.fi.qualname}:{best}:alias")
        nxt = st.cell("rec_current")
        bs_ = bases(nxt)
        okf = all(is_clone(x) for x in bs_)
        ctx.ob("C09.a", f"{cname}._step:next-tour-is-fresh", okf, st.where,
               f"the next tour is built on {[vg.show(x, 2) for x in bs_]}" + ("" if okf else ": every branch must start from a .clone() (in-place surgery on the stored tour corrupts rec_current/rec_best)"),
               construct=f"{st.fi.qualname}:next-tour:fresh")
        rb = nf.strip(st.cell("rec_best"))
        bsf_new = st.cell("cost_bsf")
        rew = st.cell("reward")
        old_bsf = vg.mk("cell0", st.td.name, "cost_bsf")
        okb, whyb = False, "rec_best is not updated by an indexed store into the old best tour"
        if rb.op == "store" and nf.strip(rb.args[0]).op == "cell0" and nf.strip(rb.args[0]).args[1] == "rec_best":
            idx, val = rb.args[1], rb.args[2]
            c = nf.cmpnf(idx)
            idx_is_improve = c is not None and c[1] == ">0" and c[0] == nf.poly(rew)
            v = val
            src_ok = False
            vb = v.args[0] if is_clone(v) else v
            if isinstance(vb, vg.S) and vb.op == "sub":
                src_ok = vb.args[0] is nxt and nf.norm(vb.args[1]) is nf.norm(idx)
            okb = idx_is_improve and src_ok and is_clone(v)
            whyb = f"rec_best[reward > 0: {idx_is_improve}] = rec_current'[same rows: {src_ok}].clone(): {is_clone(v)}"
        ctx.ob("C09.b", f"{cname}._step:best-tour-update", okb, st.where, whyb, construct=f"{st.fi.qualname}:rec_best:update")
        # ---------------- b: bsf algebra
        cur_cost = st.cell("cost_current")
        w = nf.strip(bsf_new)
        okw, whyw = False, "cost_bsf' is not torch.where(new < bsf, new, bsf)"
        if nf._fn(w) == "torch.where" and len(w.args) == 4:
            cnd, a, b = w.args[1:]
            c = nf.cmpnf(cnd)
            okw = (c is not None and c[1] == ">0" and c[0] == nf.poly(old_bsf) - nf.poly(cur_cost)
                   and a is cur_cost and nf.strip(b) is old_bsf)
            whyw = f"where({c[0].show(2) if c else '?'} {c[1] if c else ''}, new, old): picks the new cost exactly when it is strictly smaller: {okw}"
        ctx.ob("C09.b", f"{cname}._step:cost_bsf=min", okw, st.where, whyw, construct=f"{st.fi.qualname}:cost_bsf:where")
        pr = nf.poly(rew)
        okr = pr == nf.poly(old_bsf) - nf.poly(bsf_new)
        ctx.ob("C09.b", f"{cname}._step:reward=bsf-bsf'", okr, st.where, f"reward = {pr.show(2)}", construct=f"{st.fi.qualname}:reward")
        # ---------------- c: cost of the stored tour
        gc = [f for f in st.it.call_frames if f.func is not None and f.func.name == "get_costs"]
        okc = len(gc) == 1 and gc[0].ret is cur_cost and st.it.sym(gc[0].locals.get("rec")) is nxt and "locs" in vg.cells_of(st.it.sym(gc[0].locals.get("coordinates")))
        ctx.ob("C09.c", f"{cname}._step:cost_current=get_costs(locs, rec_current')", okc, st.where,
               "cost_current' = get_costs(locs, next_rec) with next_rec the tour stored as rec_current'" if okc else "cost_current' is not the cost of the tour stored as rec_current'",
               construct=f"{st.fi.qualname}:cost_current")
        # ---------------- d: visited_time rebuilt from the same tour
        vt = st.cell("visited_time")
        uses = any(n is nxt for n in vg.walk(vt))
        starts0 = any(n.op == "*" and any(vg.is_const(x, 0) for x in n.args) for n in vg.walk(vt))
        ctx.ob("C09.d", f"{cname}._step:visited_time", uses and starts0, st.where,
               f"visited_time' rebuilt from rec_current': {uses}; starts from zeros: {starts0}", construct=f"{st.fi.qualname}:visited_time")
        ctx.sample({"env": cname, "next_tour_bases": [vg.show(x, 2) for x in bs_]})
    surgery(ctx)
    ruin_repair_visit_stamps(ctx)
    sampler_over_all_moves(ctx)
    neuopt_padding(ctx)
    mask_caller_convention(ctx)
    step_to_solution_through_step(ctx)
    # get_costs definition
    base = ctx.repo.get_class("rl4co/envs/common/base.py", "ImprovementEnvBase")
    fi = base.methods["get_costs"]
    ctx.fn(fi)
    it = vg.Interp(ctx.repo, base)
    fr = it.run_function(fi)
    ret = nf.strip(fr.ret)
    ok, why = False, "length is not (coords.gather(1, rec) - coords).norm(p=2, dim=2).sum(1)"
    if ret.op == "meth" and ret.args[1] == "sum" and nf.axis_is(ret, 1):
        nrm = nf.strip(ret.args[0])
        if nrm.op == "meth" and nrm.args[1] == "norm":
            d = nf.poly(nrm.args[0])
            mon = d.monos()
            gathered = [a for c, fs in mon for a, _ in fs if a.op == "meth" and a.args[1] == "gather" and "rec" in vg.params_of(a)]
            plain = [a for c, fs in mon for a, _ in fs if a.op == "param" and a.args[0] == "coordinates"]
            dims = [x.args[1] for x in nrm.args[2:] if x.op == "kw" and x.args[0] == "dim"] or [x for x in nrm.args[2:] if x.op == "const" and isinstance(x.args[0], int)][1:2]
            ok = len(mon) == 2 and bool(gathered) and bool(plain) and dims and vg.is_const(dims[0], 2) and vg.is_const(gathered[0].args[2], 1)
            why = f"sum over nodes of |coords[rec[i]] - coords[i]| : {ok}"
    ctx.ob("C09.c", "ImprovementEnvBase.get_costs", ok, fi.loc, why, construct="ImprovementEnvBase.get_costs:definition")
    # ---------------- e: flat move index decode
    for rel, cls_ in (("rl4co/models/zoo/dact/policy.py", "DACTPolicy"), ("rl4co/models/zoo/n2s/policy.py", "N2SPolicy")):
        mi = ctx.repo.module_by_path(rel)
        divs, mods = [], []
        for n in ast.walk(mi.tree):
            if isinstance(n, ast.BinOp) and isinstance(n.op, (ast.FloorDiv, ast.Mod)) and isinstance(n.right, ast.Name):
                (divs if isinstance(n.op, ast.FloorDiv) else mods).append((ast.unparse(n.left), n.right.id, n.lineno))
        pairs = [(d, m) for d in divs for m in mods if d[0] == m[0]]
        okp = bool(pairs) and all(d[1] == m[1] for d, m in pairs)
        # the divisor is the sequence length of the flattened (n x n) logits
        seq = {d[1] for d, m in pairs}
        ctx.ob("C09.e", f"{cls_}:flat-index-decode", okp and len(seq) == 1, rel,
               f"(a // {sorted(seq)}, a % {sorted(seq)}) on the same flat index at lines {[d[2] for d, m in pairs]}", construct=f"{cls_}:flat-index")


def versions(b, depth=0):
    """Older versions of an in-place modified tensor (following store / in-place method bases)."""
    out = []
    while isinstance(b, vg.S) and depth < 200:
        depth += 1
        if b.op == "store" or (b.op == "meth" and b.args[1].endswith("_") and not b.args[1].startswith("__")):
            b = b.args[0]
            out.append(b)
        elif b.op == "loopvar":
            b = b.args[1]
            out.append(b)
        elif b.op == "loop":
            out.append(b.args[0])
            b = b.args[1]
            out.append(b)
        elif b.op == "nograd":
            b = b.args[0]
        else:
            break
    return out


def surgery(ctx: Ctx):
    """C09.f  an inverse permutation (argsort of the linked list) used to rewrite the list is
              taken from the version being rewritten or from the untouched original, never from
              an intermediate version that has been modified since;
       C09.g  an absorbing pointer walk `cur = where(cur != stop, next(cur), cur)` over an
              n-node cycle runs at least n - 1 iterations."""
    for cname, path in ENVS.items():
        env = EnvA(ctx.repo, path, cname)
        fi = env.resolve("_local_operator")
        if fi is None:
            raise AnalysisError(f"{cname}._local_operator not found")
        ctx.fn(fi)
        it = vg.Interp(ctx.repo, env.cls)
        fr = it.run_function(fi)
        ret = fr.ret
        if not isinstance(ret, vg.S):
            raise AnalysisError(f"{cname}._local_operator: return not resolved")
        n_sc, stale = 0, []
        for n in vg.walk(ret):
            if n.op == "meth" and n.args[1] == "scatter_" and len(n.args) >= 5:
                n_sc += 1
                base = n.args[0]
                olds = versions(base)
                chain = {base.id} | {o.id for o in olds if isinstance(o, vg.S)}
                for arg in n.args[3:]:
                    if not isinstance(arg, vg.S):
                        continue
                    # scan the index/value expression itself, not the history of the tensor it reads
                    for a in vg.walk(arg, stop=lambda x: x.id in chain):
                        if a.op == "meth" and a.args[1] == "argsort":
                            src = a.args[0]
                            if src is not base and any(src is o for o in olds):
                                stale.append((n, a))
        if n_sc == 0:
            raise AnalysisError(f"{cname}._local_operator: no scatter_ surgery found")
        ctx.ob("C09.f", f"{cname}._local_operator:inverse-permutation-fresh", not stale, fi.loc,
               (f"{n_sc} scatter_ rewrites; every argsort they use is of the current or the original list" if not stale else
                f"a scatter_ rewrites the list using an argsort taken from an intermediate version that was modified afterwards (stale predecessor table): {vg.show(stale[0][1], 3)}"),
               construct=f"{fi.qualname}:stale-argsort")
        # second clause: an inverse (predecessor table) is only taken of a list that IS a permutation.  Unlinking node x
        # (`rec[pre(x)] = rec[x]`) leaves x's own entry behind: two nodes point to x's old successor and nobody points to x.  The list
        # becomes a permutation again when x is made a self-loop (`rec[x] = x`) -- only then `argsort()` / a scatter of arange is the inverse.
        chain = [ret] + [o for o in versions(ret) if isinstance(o, vg.S)]
        chain = [c_ for c_ in reversed(chain)]
        def _is_inverse(a_):
            if a_.op == "meth" and a_.args[1] == "argsort":
                return a_.args[0]
            if a_.op == "meth" and a_.args[1] in ("scatter_", "scatter") and len(a_.args) >= 5 and nf._fn(nf.strip(a_.args[0])) in ("torch.empty_like", "torch.zeros_like", "torch.empty", "torch.zeros") \
                    and any(nf._fn(x_) == "torch.arange" for x_ in vg.walk(a_.args[4])):
                return a_.args[3]
            return None
        dangling, perm_of = set(), {}
        for v_ in chain:
            if v_.op == "meth" and v_.args[1] == "scatter_" and len(v_.args) >= 5 and isinstance(v_.args[3], vg.S) and isinstance(v_.args[4], vg.S):
                idx_, val_ = nf.strip(v_.args[3]), nf.strip(v_.args[4])
                if idx_.id == val_.id and idx_.id in dangling:
                    dangling.discard(idx_.id)                      # self-loop of an unlinked node
                elif idx_.op == "meth" and idx_.args[1] == "gather" and val_.op == "meth" and val_.args[1] == "gather" and len(idx_.args) >= 4 and len(val_.args) >= 4 \
                        and _is_inverse(nf.strip(idx_.args[0])) is not None and nf.strip(idx_.args[3]).id == nf.strip(val_.args[3]).id:
                    dangling.add(nf.strip(idx_.args[3]).id)        # unlink of node x: rec[pre(x)] = rec[x]
            perm_of[v_.id] = not dangling
        not_perm = []
        for n in vg.walk(ret):
            src_ = _is_inverse(n) if isinstance(n, vg.S) else None
            if src_ is not None and isinstance(src_, vg.S) and perm_of.get(src_.id, True) is False:
                not_perm.append(n)
        ctx.ob("C09.f", f"{cname}._local_operator:inverse-of-a-permutation", not not_perm, fi.loc,
               f"{len(chain)} versions of the successor list; every predecessor table is taken of a version that is a permutation" if not not_perm else
               f"a predecessor table is computed from a list in which an unlinked node has not been made a self-loop yet ({vg.show(not_perm[0], 3)[:80]}): the list is not a permutation there, "
               "its `inverse` is arbitrary for the doubly-pointed node and the next unlink cuts the tour at the wrong place",
               construct=f"{fi.qualname}:inverse-of-a-non-permutation")
        # absorbing walks
        n_walks = 0
        for node in ast.walk(fi.node):
            if not isinstance(node, ast.For):
                continue
            absorbing = None
            for b in node.body:
                if isinstance(b, ast.Assign) and len(b.targets) == 1 and isinstance(b.targets[0], ast.Name) and isinstance(b.value, ast.Call) \
                        and ast.unparse(b.value.func) == "torch.where" and len(b.value.args) == 3:
                    tgt = b.targets[0].id
                    cond, a, c = b.value.args
                    if isinstance(cond, ast.Compare) and len(cond.ops) == 1 and isinstance(cond.ops[0], (ast.NotEq, ast.Eq)):
                        sides = [cond.left, cond.comparators[0]]
                        on_tgt = any(isinstance(x, ast.Name) and x.id == tgt for x in sides)
                        # where(cur != stop, next, cur)  or  where(cur == stop, cur, next)
                        keep = c if isinstance(cond.ops[0], ast.NotEq) else a
                        if on_tgt and isinstance(keep, ast.Name) and keep.id == tgt:
                            absorbing = tgt
            if absorbing is None:
                continue
            itr = node.iter
            ok, why = False, f"loop bound {ast.unparse(itr)} not understood"
            if isinstance(itr, ast.Call) and getattr(itr.func, "id", "") == "range" and len(itr.args) == 1:
                e = itr.args[0]
                c = 0
                basee = e
                if isinstance(e, ast.BinOp) and isinstance(e.op, (ast.Add, ast.Sub)) and isinstance(e.right, ast.Constant):
                    c = e.right.value if isinstance(e.op, ast.Add) else -e.right.value
                    basee = e.left
                bt = ast.unparse(basee)
                ok = bt.endswith("num_loc") and c >= -1
                why = f"absorbing walk on `{absorbing}` runs range({ast.unparse(e)}) iterations; reaching any node of an n-cycle needs up to n - 1 steps"
            n_walks += 1
            ctx.ob("C09.g", f"{cname}._local_operator:walk-bound@{node.lineno - fi.node.lineno}", ok, fi.loc, why, construct=f"{fi.qualname}:walk-bound:{n_walks}")
        if cname == "TSPkoptEnv" and n_walks < 1:
            raise AnalysisError(f"{cname}._local_operator: the absorbing 2-opt reversal walk was not recognised")


def ruin_repair_mask(ctx: Ctx):
    """C09.h PDP ruin-and-repair mask: reinsertion positions are ordered by visit time with the depot FIRST.  The tour's visit
    times run 1..n with the depot stamped n (it closes the cycle), so the order test must compare `visited_time % n`: without
    the modulus the depot is ordered last and `delivery right after the depot, pickup later` is offered."""
    path = "rl4co/envs/routing/pdp/env.py"
    cls = ctx.repo.get_class(path, "PDPRuinRepairEnv")
    fi = cls.methods.get("get_mask")
    if fi is None:
        raise AnalysisError("PDPRuinRepairEnv.get_mask not found")
    ctx.fn(fi)
    it = vg.Interp(ctx.repo, cls)
    fr = it.run_function(fi)
    cmps = [nf._cmp_raw(n) for n in vg.walk(fr.ret) if nf._cmp_raw(n) is not None] if isinstance(fr.ret, vg.S) else []
    cmps = [c for c in cmps if "visited_time" in vg.cells_of(c[0]) and "visited_time" in vg.cells_of(c[2])]

    def n_nodes(x):
        d = nf.dim_of(x)
        if d is not None:
            return nf.strip(d[0]).op == "cell0" and nf.strip(d[0]).args[1] == "visited_time" and d[1] in (1, -1)
        # visited_time.size()[1] (tuple unpacking of .size())
        return x.op == "sub" and vg.is_const(x.args[1], 1) and x.args[0].op == "meth" and x.args[0].args[1] == "size" and len(x.args[0].args) == 2 \
            and nf.strip(x.args[0].args[0]).op == "cell0" and nf.strip(x.args[0].args[0]).args[1] == "visited_time" or \
            (x.op == "sub" and vg.is_const(x.args[1], 1) and x.args[0].op == "attr" and x.args[0].args[1] == "shape" and nf.strip(x.args[0].args[0]).op == "cell0")

    def wrapped(x):
        x = nf.strip(x)
        return x.op == "%" and nf.strip(x.args[0]).op == "cell0" and nf.strip(x.args[0]).args[1] == "visited_time" and n_nodes(x.args[1])
    ok = len(cmps) == 1 and wrapped(cmps[0][0]) and wrapped(cmps[0][2]) and cmps[0][1] in (">", "<")
    ctx.ob("C09.h", "PDPRuinRepairEnv.get_mask:depot-ordered-first", ok, fi.loc,
           "positions are ordered by visited_time % n on both sides (the depot's stamp n wraps to 0)" if ok else
           f"the order test compares {[vg.show(c[0], 3)[:60] + ' ' + c[1] + ' ' + vg.show(c[2], 3)[:60] for c in cmps][:2]}: the depot (visit time n) is not wrapped to position 0",
           construct="PDPRuinRepairEnv.get_mask:visit-order-modulus")


def _walk_stamps(fi):
    """`for i in range(n): cur = tour[rows, pre]; stamp[rows, cur] = f(i); pre = cur` -> [(loop node, f as {power of i: coef}, start node)]"""
    out = []
    for lp in [n for n in ast.walk(fi.node) if isinstance(n, ast.For)]:
        if not (isinstance(lp.target, ast.Name) and isinstance(lp.iter, ast.Call) and getattr(lp.iter.func, "id", "") == "range" and len(lp.iter.args) == 1):
            continue
        iv = lp.target.id
        carried = None
        for st in lp.body:
            # pre = cur
            if isinstance(st, ast.Assign) and isinstance(st.targets[0], ast.Name) and isinstance(st.value, ast.Name):
                carried = (st.targets[0].id, st.value.id)
        if carried is None:
            # the other spelling of the walk: one cursor that advances itself, `stamp[rows, cur] = f(i)` and `cur = tour[rows, cur]`
            adv = [(k_, st) for k_, st in enumerate(lp.body) if isinstance(st, ast.Assign) and isinstance(st.targets[0], ast.Name) and isinstance(st.value, ast.Subscript)
                   and any(isinstance(x, ast.Name) and x.id == st.targets[0].id for x in ast.walk(st.value.slice))]
            if len(adv) == 1:
                cur_ = adv[0][1].targets[0].id
                stp = [(k_, st) for k_, st in enumerate(lp.body) if isinstance(st, ast.Assign) and isinstance(st.targets[0], ast.Subscript)
                       and any(isinstance(x, ast.Name) and x.id == cur_ for x in ast.walk(st.targets[0].slice))]
                if len(stp) == 1:
                    order = "stamp-first" if stp[0][0] < adv[0][0] else "advance-first"
                    out.append((lp, _lin_in(stp[0][1].value, iv), cur_, order))
            continue
        pre, cur = carried
        steps = [st for st in lp.body if isinstance(st, ast.Assign) and isinstance(st.targets[0], ast.Name) and st.targets[0].id == cur and isinstance(st.value, ast.Subscript)
                 and any(isinstance(x, ast.Name) and x.id == pre for x in ast.walk(st.value.slice))]
        stamps = [st for st in lp.body if isinstance(st, ast.Assign) and isinstance(st.targets[0], ast.Subscript)
                  and any(isinstance(x, ast.Name) and x.id == cur for x in ast.walk(st.targets[0].slice))]
        if len(steps) != 1 or len(stamps) != 1:
            continue
        e = stamps[0].value

        def lin(e):
            if isinstance(e, ast.Constant) and isinstance(e.value, int) and not isinstance(e.value, bool):
                return {0: e.value}
            if isinstance(e, ast.Name) and e.id == iv:
                return {1: 1}
            if isinstance(e, ast.BinOp) and isinstance(e.op, (ast.Add, ast.Sub)):
                l, r = lin(e.left), lin(e.right)
                if l is None or r is None:
                    return None
                sg = 1 if isinstance(e.op, ast.Add) else -1
                o = dict(l)
                for k, v in r.items():
                    o[k] = o.get(k, 0) + sg * v
                return {k: v for k, v in o.items() if v}
            return None
        out.append((lp, lin(e), pre, "advance-first"))
    return out


def _lin_in(e, iv):
    """linear form of an integer expression in the loop variable `iv`: {power: coefficient} or None"""
    if isinstance(e, ast.Constant) and isinstance(e.value, int) and not isinstance(e.value, bool):
        return {0: e.value}
    if isinstance(e, ast.Name) and e.id == iv:
        return {1: 1}
    if isinstance(e, ast.BinOp) and isinstance(e.op, (ast.Add, ast.Sub)):
        l, r = _lin_in(e.left, iv), _lin_in(e.right, iv)
        if l is None or r is None:
            return None
        sg = 1 if isinstance(e.op, ast.Add) else -1
        o = dict(l)
        for k, v in r.items():
            o[k] = o.get(k, 0) + sg * v
        return {k: v for k, v in o.items() if v}
    return None


def ruin_repair_visit_stamps(ctx: Ctx):
    """C09.i PDP ruin-and-repair: get_mask orders positions by `visited_time % n` with the depot first, so the state must stamp
    the depot with a multiple of n.  The walk starts at the depot (`pre = 0`) and reaches it again in iteration n - 1: the stamp
    of iteration i has to be i + 1, in `_reset` exactly as in `_step` -- with `i` the depot gets n - 1 and is ordered LAST, and
    the first mask after reset offers `delivery right behind the depot`."""
    cls = ctx.repo.get_class("rl4co/envs/routing/pdp/env.py", "PDPRuinRepairEnv")
    for meth in ("_reset", "_step"):
        fi = cls.methods.get(meth)
        if fi is None:
            raise AnalysisError(f"PDPRuinRepairEnv.{meth} not found")
        ctx.fn(fi)
        loops = _walk_stamps(fi)
        if len(loops) != 1:
            raise AnalysisError(f"PDPRuinRepairEnv.{meth}: expected one tour walk that stamps visit times, found {len(loops)}")
        lp, f, pre, order = loops[0]
        if f is None:
            raise AnalysisError(f"PDPRuinRepairEnv.{meth}: visit stamp is not linear in the loop index")
        # the walk starts at the depot: `pre` is initialised with zeros
        init = None
        for st in ast.walk(fi.node):
            if isinstance(st, ast.Assign) and isinstance(st.targets[0], ast.Name) and st.targets[0].id == pre and st.lineno < lp.lineno:
                init = st.value
        from_depot = init is not None and any(isinstance(c, ast.Call) and ast.unparse(c.func) in ("torch.zeros", "torch.zeros_like") for c in ast.walk(init))
        # advance-first: iteration i stamps the i+1-th node AFTER the depot (the depot itself in iteration n - 1): needs i + 1.
        # stamp-first: iteration i stamps the node reached after i moves (the depot in iteration 0): needs i.
        want_f = {1: 1, 0: 1} if order == "advance-first" else {1: 1}
        ok = f == want_f and from_depot
        shown = " + ".join((f"{v}*i" if k else str(v)) for k, v in sorted(f.items(), reverse=True)) or "0"
        ctx.ob("C09.i", f"PDPRuinRepairEnv.{meth}:visit-stamp", ok, fi.loc,
               f"walk from the depot: {from_depot} ({order}); stamp of iteration i = {shown}" + ("" if ok else " -- get_mask wraps the depot's stamp with % n: the depot must carry a multiple of n and its successor 1"),
               construct=f"PDPRuinRepairEnv.{meth}:visit-stamp")


def sampler_over_all_moves(ctx: Ctx):
    """C09.j the env's own random-move sampler draws from softmax(masked logits).  Forbidden moves are filled with a large
    finite negative number, which gives them probability zero only if the softmax ranges over ALL candidate moves of the
    instance at once: normalising row by row first turns a fully forbidden row into a uniform one, and the flattened
    distribution then offers forbidden moves."""
    for path, cname in (("rl4co/envs/routing/pdp/env.py", "PDPRuinRepairEnv"),):
        cls = ctx.repo.get_class(path, cname)
        fi = cls.methods.get("_random_action")
        if fi is None:
            raise AnalysisError(f"{cname}._random_action not found")
        ctx.fn(fi)
        it = vg.Interp(ctx.repo, cls, inline_policy=lambda f, a: False)
        fr = it.run_function(fi)
        draws = [n for n in vg.walk(fr.ret) if (n.op == "meth" and n.args[1] == "multinomial") or nf._fn(n) == "torch.multinomial"] if isinstance(fr.ret, vg.S) else []
        if len(draws) != 1:
            raise AnalysisError(f"{cname}._random_action: expected one multinomial draw, found {len(draws)}")
        dist = draws[0].args[0] if draws[0].op == "meth" else draws[0].args[1]
        FLAT = {"view", "reshape", "flatten"}
        # peel reshapes off the distribution: what is left must be the softmax, and ITS operand must be the flattened logits
        d, reshaped_after = dist, False
        while isinstance(d, vg.S) and d.op == "meth" and d.args[1] in FLAT:
            d, reshaped_after = d.args[0], True
        is_sm = isinstance(d, vg.S) and ((d.op == "meth" and d.args[1] == "softmax") or nf._fn(d) in ("torch.softmax", "F.softmax", "torch.nn.functional.softmax"))
        if not is_sm:
            raise AnalysisError(f"{cname}._random_action: the multinomial draw is not taken from a softmax")
        operand = d.args[0] if d.op == "meth" else d.args[1]
        flat_before = isinstance(operand, vg.S) and operand.op == "meth" and operand.args[1] in FLAT
        filled = any(n.op == "store" for n in vg.walk(operand))
        ok = flat_before and not reshaped_after and filled
        ctx.ob("C09.j", f"{cname}._random_action:softmax-over-all-moves", ok, fi.loc,
               f"softmax operand is the flattened masked logits: {flat_before}; distribution reshaped after normalising: {reshaped_after}; forbidden moves filled before: {filled}" +
               ("" if ok else " -- a fully forbidden row becomes uniform and its moves are drawn"),
               construct=f"{cname}._random_action:softmax-scope")


def neuopt_padding(ctx: Ctx):
    """C09.k NeuOpt builds a k-opt move node by node; once a row has closed its move (`stopped`), every further slot is padded
    with the row's FIRST node (`where(stopped, record[:, :1], sampled)`), which TSPkoptEnv._local_operator reads as `no further
    exchange`.  The record table must be written from the padded value, i.e. after the override -- written before it, the
    closed rows keep arbitrary sampled nodes and the env cuts the tour at them (sub-tours for k_max >= 5)."""
    cls = ctx.repo.get_class("rl4co/models/zoo/neuopt/policy.py", "NeuOptPolicy")
    fi = cls.methods.get("forward")
    if fi is None:
        raise AnalysisError("NeuOptPolicy.forward not found")
    ctx.fn(fi)
    found = 0
    for lp in [n for n in ast.walk(fi.node) if isinstance(n, ast.For)]:
        iv = lp.target.id if isinstance(lp.target, ast.Name) else None
        overrides = []
        for idx, st in enumerate(lp.body):
            for a in ast.walk(st):
                if isinstance(a, ast.Assign) and isinstance(a.targets[0], ast.Name) and isinstance(a.value, ast.Call) and ast.unparse(a.value.func) == "torch.where" and len(a.value.args) == 3:
                    v = a.targets[0].id
                    c_, pad, keep = a.value.args
                    if isinstance(keep, ast.Name) and keep.id == v and isinstance(pad, ast.Subscript) and isinstance(pad.value, ast.Name):
                        overrides.append((idx, v, pad.value.id))
        if len(overrides) != 1:
            continue
        oi, v, table = overrides[0]
        stores = [idx for idx, st in enumerate(lp.body) if isinstance(st, ast.Assign) and isinstance(st.targets[0], ast.Subscript) and isinstance(st.targets[0].value, ast.Name)
                  and st.targets[0].value.id == table and any(isinstance(x, ast.Name) and x.id == iv for x in ast.walk(st.targets[0].slice))
                  and any(isinstance(x, ast.Name) and x.id == v for x in ast.walk(st.value))]
        found += 1
        ok = len(stores) == 1 and stores[0] > oi
        # no other redefinition of the sampled value between the override and the store
        if ok:
            between = [st for st in lp.body[oi + 1:stores[0]] for a in ast.walk(st) if isinstance(a, ast.Assign) and any(isinstance(t, ast.Name) and t.id == v for t in a.targets)]
            ok = not between
        ctx.ob("C09.k", "NeuOptPolicy.forward:closed-rows-padded-with-first-node", ok, fi.loc,
               f"`{table}[:, i]` is written from `{v}` after where(stopped, {table}[:, :1], {v}): {ok}" +
               ("" if ok else " -- rows that already closed their move record arbitrary sampled nodes; TSPkoptEnv._local_operator takes them as further exchange points"),
               construct="NeuOptPolicy.forward:record-after-padding")
        # every one of the k_max slots is written: the loop runs to the end (no break / return / continue before the store)
        exits = [type(x).__name__.lower() for st in lp.body for x in ast.walk(st) if isinstance(x, (ast.Break, ast.Return))] + \
                [type(x).__name__.lower() for st in lp.body[:stores[0] + 1 if stores else len(lp.body)] for x in ast.walk(st) if isinstance(x, ast.Continue)]
        full = isinstance(lp.iter, ast.Call) and ast.unparse(lp.iter.func) == "range" and len(lp.iter.args) == 1 and "k_max" in ast.unparse(lp.iter.args[0])
        ctx.ob("C09.k", "NeuOptPolicy.forward:every-slot-written", not exits and full, fi.loc,
               f"the decoding loop runs over range(k_max): {full}; early exits in its body: {exits or 'none'}" +
               ("" if (not exits and full) else " -- the slots of the skipped iterations keep their initial value, which the env reads as exchange points (the padding written by the remaining iterations is what says `no further exchange`)"),
               construct="NeuOptPolicy.forward:decoding-loop-early-exit")
    if found != 1:
        raise AnalysisError(f"NeuOptPolicy.forward: expected one decoding loop with a stopped-row override, found {found}")


def mask_caller_convention(ctx: Ctx):
    """C09.l `PDPRuinRepairEnv.get_mask(selected_node, td)` takes the NODE index of the removed pickup (1-based: node 0 is the
    depot); the callers hold the 0-based PAIR index (the first column of the action) and must pass it `+ 1`.  Sibling agreement
    over every call site of the two-argument get_mask (the env's own sampler and the N2S policy)."""
    import ast
    sites = []
    for mi in sorted(ctx.repo.modules.values(), key=lambda m: m.relpath):
        if not mi.relpath.startswith("rl4co/"):
            continue
        for c in ast.walk(mi.tree):
            if isinstance(c, ast.Call) and isinstance(c.func, ast.Attribute) and c.func.attr == "get_mask" and len(c.args) == 2:
                sites.append((mi, c))
    if len(sites) < 2:
        raise AnalysisError(f"only {len(sites)} call site(s) of get_mask(selected, td) found")
    for mi, c in sites:
        a = c.args[0]
        plus1 = isinstance(a, ast.BinOp) and isinstance(a.op, ast.Add) and any(isinstance(x, ast.Constant) and x.value == 1 for x in (a.left, a.right))
        ctx.repo.note(mi)
        ctx.ob("C09.l", f"{mi.relpath}:get_mask({ast.unparse(a)[:30]}, td):node-index", plus1, f"{mi.relpath}:{c.lineno}",
               f"first argument `{ast.unparse(a)[:50]}`: pair index + 1 (node index of the pickup) -- {plus1}" +
               ("" if plus1 else "; get_mask then blocks the rows of the neighbouring pair and leaves the removed nodes selectable as insertion points"),
               construct=f"{mi.relpath}:get_mask-argument")


def step_to_solution_through_step(ctx: Ctx):
    """C09.m jumping to a given solution goes through `_step(td, solution_to=...)` on every path: that is where cost_current,
    the best-so-far bookkeeping and visited_time are rebuilt from the new tour.  A shortcut that writes rec_current itself
    leaves visited_time describing the previous tour (get_mask, the k-opt sampler and NeuOpt read it)."""
    import ast
    base = ctx.repo.get_class("rl4co/envs/common/base.py", "ImprovementEnvBase")
    fi = base.methods.get("step_to_solution")
    if fi is None:
        raise AnalysisError("ImprovementEnvBase.step_to_solution not found")
    ctx.fn(fi)
    from ..model import returned_exprs
    rets = list(returned_exprs(fi.node))
    via = [r for r in rets if isinstance(r, ast.Call) and isinstance(r.func, ast.Attribute) and r.func.attr == "_step" and any(k.arg == "solution_to" for k in r.keywords)]
    ok = bool(rets) and len(via) == len(rets)
    ctx.ob("C09.m", "ImprovementEnvBase.step_to_solution:every-path-through-_step", ok, fi.loc,
           f"{len(rets)} return(s), {len(via)} of them self._step(td, solution_to=solution)" + ("" if ok else " -- the other path hands back a state whose derived fields were not rebuilt"),
           construct="ImprovementEnvBase.step_to_solution:bypass")


def run_thorough(ctx: Ctx):
    from ..selftest.corpus import for_prop
    from ..selftest.runner import run_corpus
    run_corpus(ctx, for_prop("C09"))
