"""C15 -- augmentation preserves costs; evaluation reports true best-of-k.  Decided clauses:

C15.a  dihedral_8_augmentation: each of the 8 copies is (s1*u + c1, s2*v + c2) with {u, v} = {x, y}
       and s in {+1, -1} (a signed permutation matrix = an isometry); copy 0 is the identity; the
       copies are concatenated on dim 0 with copy 0 first (layout (augment, batch))
C15.b  symmetric_transform: (x', y') = R(phi) (x - o, y - o) with x'^2 + y'^2 == (x-o)^2 + (y-o)^2
       as polynomials modulo cos^2 + sin^2 = 1, an optional coordinate swap, and + o; the first
       B rows get phi = 0 unless first_augment; StateAugmentation augments batchify(td, n) copies
C15.c  evaluation bookkeeping: rewards are recomputed on batchify(td_init, .) with td_init cloned
       BEFORE the augmentation, with the actions returned by the policy; (factor agreement,
       best-of gather axis, loader order and pairwise concatenation are shared with C12 / C17)
"""
from __future__ import annotations

import ast
from fractions import Fraction

from .. import nf, vg
from ..core import Ctx
from ..model import AnalysisError

FLOOR = 46
EXPLANATION = (
    "Static analysis of rl4co/data/transforms.py and rl4co/tasks/eval.py: polynomial normal forms of the 8 dihedral copies "
    "(signed coordinate permutations, identity first, concatenation on dim 0) and of symmetric_transform (norm preservation as a "
    "polynomial identity modulo cos^2+sin^2=1, optional swap, offset restored), identity rows for the first copy, and the "
    "evaluation classes recompute rewards on the un-augmented clone with the returned actions (plus the C12/C17 regrouping, "
    "best-of and loader-order rules). Decides that every bundled augmentation is an isometry for all coordinates and that the "
    "reported reward is the objective on the original instance; 'never worse than greedy' needs the rollouts and is not decided; "
    "normalize=True is documented as changing coordinates."
)
RULE = "one obligation per augmentation copy / identity clause / evaluation class"
TR = "rl4co/data/transforms.py"
EV = "rl4co/tasks/eval.py"


def lin(p: nf.Poly):
    """linear form  coeff*atom + const  ->  (atom, coeff, const) or None"""
    mon = p.monos()
    var = [(c, fs) for c, fs in mon if fs]
    cst = [c for c, fs in mon if not fs]
    if len(var) != 1 or len(var[0][1]) != 1 or var[0][1][0][1] != 1:
        return None
    return var[0][1][0][0], var[0][0], (cst[0] if cst else Fraction(0))


def reduce_trig(p: nf.Poly, cos_id: int, sin_id: int) -> nf.Poly:
    """rewrite cos^2 -> 1 - sin^2 until no power of cos >= 2 remains"""
    changed = True
    guard = 0
    while changed and guard < 20:
        guard += 1
        changed = False
        out = {}
        for m, c in p.terms.items():
            d = dict(m)
            if d.get(cos_id, 0) >= 2:
                changed = True
                d[cos_id] -= 2
                base = {k: v for k, v in d.items() if v}
                m1 = tuple(sorted(base.items()))
                out[m1] = out.get(m1, 0) + c
                d2 = dict(base)
                d2[sin_id] = d2.get(sin_id, 0) + 2
                m2 = tuple(sorted(d2.items()))
                out[m2] = out.get(m2, 0) - c
            else:
                out[m] = out.get(m, 0) + c
        p = nf.Poly(out)
    return p


def _fold(e, env):
    """Constant folding of a boolean expression over string comparisons (no code of the repository is executed)."""
    if isinstance(e, ast.Constant):
        return e.value
    if isinstance(e, ast.Name):
        return env.get(e.id)
    if isinstance(e, (ast.Tuple, ast.List, ast.Set)):
        return [_fold(x, env) for x in e.elts]
    if isinstance(e, ast.UnaryOp) and isinstance(e.op, ast.Not):
        v = _fold(e.operand, env)
        return None if v is None else (not v)
    if isinstance(e, ast.BoolOp):
        vs = [_fold(x, env) for x in e.values]
        if any(v is None for v in vs):
            return None
        return all(vs) if isinstance(e.op, ast.And) else any(vs)
    if isinstance(e, ast.Compare) and len(e.ops) == 1:
        a, b = _fold(e.left, env), _fold(e.comparators[0], env)
        if a is None or b is None:
            return None
        op = e.ops[0]
        if isinstance(op, ast.Eq):
            return a == b
        if isinstance(op, ast.NotEq):
            return a != b
        if isinstance(op, ast.In):
            return a in b
        if isinstance(op, ast.NotIn):
            return a not in b
    return None


def best_of_all_rollouts(ctx: Ctx):
    """C15.j / C15.k the value logged as an instance's best reward is the maximum over ALL its rollouts.
    j) POMO / SymNCO `shared_step` regroup the rewards as R = unbatchify(reward, (f1, f2)) = [batch, f1, f2].  With multi-start
       AND augmentation on, `max_aug_reward` must have reduced BOTH replica axes of R by a maximum (first the start axis into
       `max_reward`, then the augmentation axis), and `max_reward` exactly the start axis -- computed by following max / amax /
       conditional nodes from the logged value back to R and collecting the axes removed (in R's numbering).
    k) REINFORCE.shared_step asks the policy for best-selection in every phase but training: the `select_best` argument,
       evaluated over phase in {train, val, test}, is (False, True, True).  And the decoding strategy applies the selection
       whenever more than one rollout per instance exists (C12.f, shared)."""
    for path, cn in (("rl4co/models/zoo/symnco/model.py", "SymNCO"), ("rl4co/models/zoo/pomo/model.py", "POMO")):
        cls = ctx.repo.get_class(path, cn)
        fi = cls.methods.get("shared_step")
        if fi is None:
            raise AnalysisError(f"{cn}.shared_step not found")
        ctx.fn(fi)
        it = vg.Interp(ctx.repo, cls, inline_policy=lambda f, a: False)
        it.run_function(fi)
        vals = {}
        for e in it.events:
            if e.kind == "methcall" and e.data[1] == "update" and e.data[2] and isinstance(e.data[2][0], vg.S) and e.data[2][0].op == "dict":
                if any("phase == 'train'" in vg.show(c, 3) and not vg.show(c, 3).startswith("not") for c in e.conds):
                    continue
                for item in e.data[2][0].args:
                    if item.op == "item" and item.args[0].op == "const" and item.args[0].args[0] in ("max_aug_reward", "max_reward"):
                        vals[item.args[0].args[0]] = item.args[1]
        if set(vals) != {"max_aug_reward", "max_reward"}:
            raise AnalysisError(f"{cn}.shared_step: logged max_reward / max_aug_reward not found ({sorted(vals)})")

        def back(n, depth=0):
            """-> (R, [axes of R still present]) under the assumption n_start > 1 and n_aug > 1, or None"""
            if depth > 40 or not isinstance(n, vg.S):
                return None
            n = nf.strip(n)
            if (nf._fn(n) or "").endswith(":unbatchify"):
                shp = n.args[2] if len(n.args) > 2 else None
                k = len(shp.args) if isinstance(shp, vg.S) and shp.op == "tuple" else None
                return (n, list(range(1 + k))) if k else None
            if n.op in ("ifexp", "phi") and isinstance(n.args[0], vg.S):
                c = vg.show(n.args[0], 6)
                if "num_starts" in c or "num_augment" in c or "n_start" in c or "n_aug" in c:
                    return back(n.args[1], depth + 1)
                return None
            if n.op == "sub" and vg.is_const(n.args[1], 0):
                return back(n.args[0], depth + 1)
            if n.op == "attr" and n.args[1] == "values":
                return back(n.args[0], depth + 1)
            if n.op == "meth" and n.args[1] in ("max", "amax"):
                r = back(n.args[0], depth + 1)
                ax = nf.axis_arg(n)
                if r is None or not (isinstance(ax, vg.S) and ax.op == "const" and isinstance(ax.args[0], int)):
                    return None
                base, axes = r
                d = ax.args[0] if ax.args[0] >= 0 else len(axes) + ax.args[0]
                if not (0 <= d < len(axes)):
                    return None
                return base, axes[:d] + axes[d + 1:]
            return None
        r_aug, r_ms = back(vals["max_aug_reward"]), back(vals["max_reward"])
        ok = r_aug is not None and r_ms is not None and r_aug[0].id == r_ms[0].id and r_aug[1] == [0] and len(r_ms[1]) == 2 and r_ms[1][0] == 0
        # the axis max_reward removes is the START axis: the position of the multi-start factor in unbatchify's shape tuple
        start_ok = False
        if ok:
            shp = r_ms[0].args[2]
            removed = ({0, 1, 2} - set(r_ms[1])).pop()
            fac = vg.show(shp.args[removed - 1], 6)
            start_ok = "num_starts" in fac or "n_start" in fac
        ctx.ob("C15.j", f"{cn}.shared_step:best-over-all-rollouts", bool(ok and start_ok), fi.loc,
               f"max_reward keeps axes {r_ms[1] if r_ms else None} of R = unbatchify(reward, (f1, f2)) (the start axis removed: {start_ok}); max_aug_reward keeps axes {r_aug[1] if r_aug else None} (must be [0]: "
               "both replica axes reduced by a maximum)", construct=f"{cn}.shared_step:best-of-all-rollouts")
    # k) select_best over the phases
    rf = ctx.repo.get_class("rl4co/models/rl/reinforce/reinforce.py", "REINFORCE")
    fi = rf.methods["shared_step"]
    ctx.fn(fi)
    kw = None
    for c in ast.walk(fi.node):
        if isinstance(c, ast.Call) and ast.unparse(c.func) == "self.policy":
            for k in c.keywords:
                if k.arg == "select_best":
                    kw = k.value
    if kw is None:
        raise AnalysisError("REINFORCE.shared_step: self.policy(..., select_best=...) not found")
    table = []
    for ph in ("train", "val", "test"):
        table.append(_fold(kw, {"phase": ph}))
    okk = table == [False, True, True]
    ctx.ob("C15.k", "REINFORCE.shared_step:select-best-in-every-evaluation-phase", okk, fi.loc,
           f"select_best = {ast.unparse(kw)} -> (train, val, test) = {table}; needs (False, True, True): validation results of a multi-start / multi-sample policy are the best rollout's, as in test",
           construct="REINFORCE.shared_step:select_best-by-phase")
    from .C12 import select_best_whenever_expanded
    n0 = len(ctx.obligations)
    select_best_whenever_expanded(ctx)
    for o in ctx.obligations[n0:]:
        o.rule = "C15.k"


def best_is_the_maximum_reward(ctx: Ctx):
    """C15.m / C15.n
    m) `best of k` means the MAXIMUM reward (rewards are negative costs for most problems and positive prizes for OP / MCP): in
       the evaluators' `_inner`, in `DecodingStrategy._select_best` and `BeamSearch._select_best_beam`, no `.min` / `.argmin` /
       `.abs()` is applied to a reward value -- `rewards.abs().min()` is the same as `rewards.max()` only while every reward is
       negative;
    n) the dataset-level figure `avg_reward` returned by EvalBase.__call__ is the mean over ALL per-instance rewards (the
       concatenation), not a mean of per-batch means, which over-weights a short last chunk."""
    targets = []
    ev = ctx.repo.module_by_path("rl4co/tasks/eval.py")
    for cn, c in sorted(ev.classes.items()):
        if "_inner" in c.methods:
            targets.append((f"{cn}._inner", c.methods["_inner"]))
    dec = ctx.repo.module_by_path("rl4co/utils/decoding.py")
    for cn, mn in (("DecodingStrategy", "_select_best"), ("BeamSearch", "_select_best_beam")):
        fi = dec.classes[cn].methods.get(mn)
        if fi is None:
            raise AnalysisError(f"{cn}.{mn} not found")
        targets.append((f"{cn}.{mn}", fi))
    if len(targets) < 6:
        raise AnalysisError(f"best-selection functions lost: {len(targets)} < 6")
    for lab, fi in targets:
        ctx.fn(fi)
        # names bound to a reward: `reward*`, or assigned from env.get_reward(...) / a dict entry "reward"
        rnames = set()
        for st in ast.walk(fi.node):
            if isinstance(st, ast.Assign):
                src = ast.unparse(st.value)
                for t in st.targets:
                    for t_ in (t.elts if isinstance(t, ast.Tuple) else [t]):
                        if isinstance(t_, ast.Name) and ("reward" in t_.id or "get_reward" in src or "['reward']" in src or '["reward"]' in src or any(r_ in src.split("(")[0] for r_ in rnames)):
                            rnames.add(t_.id)
        bad = []
        for c in ast.walk(fi.node):
            if isinstance(c, ast.Call) and isinstance(c.func, ast.Attribute) and c.func.attr in ("min", "argmin", "abs", "amin"):
                names = {x.id for x in ast.walk(c.func.value) if isinstance(x, ast.Name)}
                if names & rnames or "reward" in ast.unparse(c.func.value):
                    bad.append(f"{ast.unparse(c)[:50]} (line {c.lineno})")
        ctx.ob("C15.m", f"{lab}:best-is-the-maximum-reward", not bad, fi.loc,
               "no min / argmin / abs on a reward" if not bad else f"{bad[0]}: selecting by smallest magnitude picks the WORST rollout when rewards are positive (OP prizes, MCP coverage)",
               construct=f"{lab}:min-or-abs-of-reward")
    eb = ev.classes["EvalBase"].methods.get("__call__")
    if eb is None:
        raise AnalysisError("EvalBase.__call__ not found")
    ctx.fn(eb)
    cat_names = {t.id for st in ast.walk(eb.node) if isinstance(st, ast.Assign) and isinstance(st.value, ast.Call) and ast.unparse(st.value.func) in ("torch.cat", "torch.concat")
                 for t in st.targets if isinstance(t, ast.Name)}
    ok_avg, why_avg = False, "`avg_reward` entry of the returned dict not found"
    for d in ast.walk(eb.node):
        if isinstance(d, ast.Dict):
            for k, v in zip(d.keys, d.values):
                if isinstance(k, ast.Constant) and k.value == "avg_reward":
                    val = v
                    if isinstance(val, ast.Name):
                        defs = [st.value for st in ast.walk(eb.node) if isinstance(st, ast.Assign) and any(isinstance(t, ast.Name) and t.id == val.id for t in st.targets)]
                        val = defs[-1] if defs else val
                    names = {x.id for x in ast.walk(val) if isinstance(x, ast.Name)}
                    is_mean = any(isinstance(x, ast.Call) and isinstance(x.func, ast.Attribute) and x.func.attr == "mean" for x in ast.walk(val))
                    ok_avg = bool(is_mean and names & cat_names and not any(isinstance(x, ast.Call) and ast.unparse(x.func) in ("torch.stack",) for x in ast.walk(val)))
                    why_avg = f"avg_reward = {ast.unparse(val)[:60]}: mean of the concatenated per-instance rewards -- {ok_avg}"
    ctx.ob("C15.n", "EvalBase.__call__:avg-reward-over-all-instances", ok_avg, eb.loc, why_avg, construct="EvalBase.__call__:avg_reward")


def run(ctx: Ctx):
    augment_after_reset(ctx)
    augmented_feature_written_whole(ctx)
    best_of_all_rollouts(ctx)
    best_is_the_maximum_reward(ctx)
    # ---------------- a: dihedral
    fi = ctx.repo.get_function(TR, "dihedral_8_augmentation")
    ctx.fn(fi)
    it = vg.Interp(ctx.repo, None)
    fr = it.run_function(fi)
    ret = fr.ret
    # the copies are returned as they are: a value-changing call around the concatenation (clamp, round, normalise ...) turns
    # the signed permutations into something else for coordinates outside its fixed set
    post = []
    while isinstance(ret, vg.S) and ret.op == "meth" and nf._fn(ret) != "torch.cat" and ret.args[1] not in ("contiguous", "clone", "to", "float"):
        post.append(ret.args[1])
        ret = ret.args[0]
    while isinstance(ret, vg.S) and ret.op == "meth" and ret.args[1] in ("contiguous", "clone", "to", "float"):
        ret = ret.args[0]
    if not (nf._fn(ret) == "torch.cat" and nf._seq_items(ret.args[1])):
        raise AnalysisError("dihedral_8_augmentation: return is not a torch.cat of the copies")
    ctx.ob("C15.a", "dihedral:copies-returned-unmodified", not post, fi.loc,
           "the concatenated copies are returned as they are" if not post else
           f"the concatenation passes through .{'/.'.join(post)}(...) before it is returned: the copies are no longer the eight signed permutations for every coordinate",
           construct="dihedral_8_augmentation:post-processed")
    zs = nf._seq_items(ret.args[1])
    dim0 = nf.axis_is(ret, 0)
    ctx.ob("C15.a", "dihedral:concat-dim0-8-copies", len(zs) == 8 and dim0, fi.loc, f"{len(zs)} copies concatenated on dim 0 (layout (augment, batch))", construct="dihedral_8_augmentation:concat")
    seen = set()
    x_atom = y_atom = None
    for i, z in enumerate(zs):
        ok, why = False, "copy is not cat((u, v), dim=2)"
        if nf._fn(z) == "torch.cat" and nf._seq_items(z.args[1]) and len(nf._seq_items(z.args[1])) == 2:
            u, v = nf._seq_items(z.args[1])
            lu, lv = lin(nf.poly(u)), lin(nf.poly(v))
            d2 = nf.axis_is(z, 2)
            if lu and lv and d2:
                (au, su, cu), (av, sv, cv) = lu, lv
                if i == 0:
                    x_atom, y_atom = au, av
                ok = abs(su) == 1 and abs(sv) == 1 and au is not av and {au, av} == {x_atom, y_atom}
                sig = (au is x_atom, int(su), int(sv))
                why = f"z{i} = ({'+' if su > 0 else '-'}{'x' if au is x_atom else 'y'} + {cu}, {'+' if sv > 0 else '-'}{'x' if av is x_atom else 'y'} + {cv}): signed permutation of the two coordinates: {ok}"
                if ok:
                    seen.add(sig)
                if i == 0:
                    ok = ok and su == 1 and sv == 1 and cu == 0 and cv == 0
                    why += f"; copy 0 is the identity: {ok}"
        ctx.ob("C15.a", f"dihedral:z{i}", ok, fi.loc, why, construct=f"dihedral_8_augmentation:z{i}")
    ctx.ob("C15.a", "dihedral:8-distinct-symmetries", len(seen) == 8, fi.loc, f"{len(seen)} distinct signed permutations", construct="dihedral_8_augmentation:distinct")
    xs = fr.locals.get("x")
    okx = isinstance(xs, vg.S) and "split" in vg.show(xs, 4)
    ctx.sample({"dihedral_signatures": sorted(map(str, seen))})
    # wrapper takes copy 0 rows
    w = ctx.repo.get_function(TR, "dihedral_8_augmentation_wrapper")
    ctx.fn(w)
    itw = vg.Interp(ctx.repo, None, inline_policy=lambda f, a: False)
    rw = itw.run_function(w).ret

    def leading_block(idx, base, k):
        """idx selects rows [0, base.shape[0] // k) on axis 0 (and everything on the other axes)"""
        first = idx.args[0] if isinstance(idx, vg.S) and idx.op == "tuple" and idx.args else idx
        rest = list(idx.args[1:]) if isinstance(idx, vg.S) and idx.op == "tuple" else []
        if not (isinstance(first, vg.S) and first.op == "slice" and vg.is_none(first.args[0]) and vg.is_none(first.args[2])):
            return False
        up = first.args[1]
        if not (isinstance(up, vg.S) and up.op == "//" and up.args[1] is k):
            return False
        n0 = up.args[0]
        rows = (n0.op == "sub" and vg.is_const(n0.args[1], 0) and n0.args[0].op == "attr" and n0.args[0].args[1] == "shape" and n0.args[0].args[0] is base) or \
            (n0.op == "meth" and n0.args[1] == "size" and n0.args[0] is base and len(n0.args) == 3 and vg.is_const(n0.args[2], 0))
        return rows and all(x.op == "ellipsis" or (x.op == "slice" and all(vg.is_none(y) for y in x.args)) for x in rest)

    okw = False
    if isinstance(rw, vg.S) and (nf._fn(rw) or "").endswith(":dihedral_8_augmentation") and len(rw.args) == 2:
        arg = rw.args[1]
        xyp = vg.mk("param", w.params()[0])
        if arg.op in ("ifexp", "phi") and arg.args[0].op == "param" and arg.args[0].args[0] == "reduce":
            red, full = arg.args[1], arg.args[2]
            okw = full is xyp and red.op == "sub" and red.args[0] is xyp and leading_block(red.args[1], xyp, vg.const(8))
    ctx.ob("C15.a", "dihedral-wrapper:first-eighth", okw, w.loc,
           "with reduce, the wrapper re-augments rows [0, B/8) -- copy 0 of the (augment, batch) layout; otherwise the input as is", construct="dihedral_8_augmentation_wrapper:rows")
    # ---------------- b: symmetric transform
    fs_ = ctx.repo.get_function(TR, "symmetric_transform")
    ctx.fn(fs_)
    it = vg.Interp(ctx.repo, None)
    fr = it.run_function(fs_)
    # x', y' are recovered from the returned value: where(mask, XY.flip(-1), XY) + offset with XY = cat((x', y'), -1)
    xp = yp = None
    for n in vg.walk(fr.ret) if isinstance(fr.ret, vg.S) else []:
        if nf._fn(n) == "torch.where" and len(n.args) == 4 and nf._fn(n.args[3]) == "torch.cat":
            its_ = nf._seq_items(n.args[3].args[1])
            if its_ and len(its_) == 2:
                xp, yp = its_
    pn_ = fs_.params()
    x0 = vg.mk("-", vg.mk("param", pn_[0]), vg.mk("param", pn_[3]))  # coordinates centred at the offset
    y0 = vg.mk("-", vg.mk("param", pn_[1]), vg.mk("param", pn_[3]))
    ok, why = False, "x_prime / y_prime not found"
    if all(isinstance(v, vg.S) for v in (xp, yp, x0, y0)):
        P = nf.poly(xp) * nf.poly(xp) + nf.poly(yp) * nf.poly(yp) - nf.poly(x0) * nf.poly(x0) - nf.poly(y0) * nf.poly(y0)
        cos = [a for a in P.atoms() if nf._fn(a) == "torch.cos"]
        sin = [a for a in P.atoms() if nf._fn(a) == "torch.sin"]
        if len(cos) == 1 and len(sin) == 1 and cos[0].args[1] is sin[0].args[1]:
            R = reduce_trig(P, cos[0].id, sin[0].id)
            ok = not R.terms
            why = "x'^2 + y'^2 - (x-o)^2 - (y-o)^2 == 0 modulo cos^2 + sin^2 = 1" if ok else f"the map is not norm preserving: residual {R.show(2)[:200]}"
        else:
            why = "rotation is not expressed with cos(phi) / sin(phi) of one angle"
        # x' and y' are linear in (x - offset), (y - offset): no un-centred use of the raw coordinates
        lin_atoms = {a for q in (nf.poly(xp), nf.poly(yp)) for a in q.atoms() if nf._fn(a) not in ("torch.cos", "torch.sin")}
        off_ok = lin_atoms == {nf.norm(vg.mk("param", pn_[0])), nf.norm(vg.mk("param", pn_[1])), nf.norm(vg.mk("param", pn_[3]))} and ok
        ctx.ob("C15.b", "symmetric_transform:centred", off_ok, fs_.loc, "coordinates are centred at the offset before rotating", construct="symmetric_transform:offset-in")
    ctx.ob("C15.b", "symmetric_transform:rotation-is-isometry", ok, fs_.loc, why, construct="symmetric_transform:isometry")
    # the angle 0 (copy 0 of the augmentation) must give back the instance: cos -> 1, sin -> 0 turns (x', y') into (x - o, y - o),
    # and the reflection switch is off at phi = 0
    ok0, why0 = False, "x_prime / y_prime / reflection switch not found"
    if all(isinstance(v, vg.S) for v in (xp, yp, x0, y0)):
        def at_zero(q):
            out = nf.Poly()
            for m, c in q.terms.items():
                keep, dead = [], False
                for aid, pw in m:
                    a = nf.Poly.ATOMS.get(aid)
                    if nf._fn(a) == "torch.sin":
                        dead = True
                    elif nf._fn(a) == "torch.cos":
                        continue
                    else:
                        keep.append((aid, pw))
                if not dead:
                    out = out + nf.Poly({tuple(keep): c})
            return out
        same_xy = at_zero(nf.poly(xp)) == nf.poly(x0) and at_zero(nf.poly(yp)) == nf.poly(y0)
        sw = None
        for n in vg.walk(fr.ret):
            if nf._fn(n) == "torch.where" and len(n.args) == 4 and nf._fn(n.args[3]) == "torch.cat":
                sw = n.args[1]
        off_at_zero = None
        if sw is not None:
            def asm(n):
                c = nf.cmpnf(n)
                if c is None:
                    return None
                P, op = c
                import math as _m
                k = 0                       # value of P at phi = 0
                for mono, coef in P.terms.items():
                    val = coef
                    for aid, pw in mono:
                        a = nf.Poly.ATOMS.get(aid)
                        if a.op == "param" and a.args[0] == pn_[2]:
                            val = 0
                        elif a.op in ("ext", "global", "attr") and vg.show(a, 3).endswith("math.pi"):
                            val = val * (_m.pi ** pw)
                        else:
                            return None
                    k += val
                return {">0": k > 0, ">=0": k >= 0, "==0": k == 0, "!=0": k != 0}[op]
            off_at_zero = nf.kleene(sw, asm)
        ok0 = same_xy and off_at_zero is False
        why0 = f"at phi = 0: (x', y') = (x - o, y - o): {same_xy}; reflection switch evaluates to {off_at_zero} (must be False)"
    ctx.ob("C15.b", "symmetric_transform:identity-at-zero-angle", ok0, fs_.loc, why0, construct="symmetric_transform:identity-at-zero")
    ret = fr.ret
    pr = nf.poly(ret)
    okr = False
    whr = f"return = {pr.show(2)[:160]}"
    mon = pr.monos()
    if len(mon) == 2:
        offs = [1 for c, fs in mon if c == 1 and len(fs) == 1 and fs[0][0].op == "param" and fs[0][0].args[0] == "offset"]
        wh = [fs[0][0] for c, fs in mon if c == 1 and len(fs) == 1 and nf._fn(fs[0][0]) == "torch.where"]
        if offs and wh:
            w_ = wh[0]
            a, b = w_.args[2], w_.args[3]
            flip = a.op == "meth" and a.args[1] == "flip" and vg.is_const(a.args[2], -1) and nf.norm(a.args[0]) is nf.norm(b)
            catxy = nf._fn(b) == "torch.cat" and nf._seq_items(b.args[1]) and nf.norm(nf._seq_items(b.args[1])[0]) is nf.norm(xp) and nf.norm(nf._seq_items(b.args[1])[1]) is nf.norm(yp)
            okr = bool(flip and catxy)
            whr = f"where(mask, (x', y').flip(-1), (x', y')) + offset: swap branch is the coordinate flip of the same pair: {bool(flip)}; pair is (x', y'): {bool(catxy)}"
    ctx.ob("C15.b", "symmetric_transform:swap-and-offset", okr, fs_.loc, whr, construct="symmetric_transform:return")
    sa_ = ctx.repo.get_function(TR, "symmetric_augmentation")
    ctx.fn(sa_)
    its = vg.Interp(ctx.repo, None, inline_policy=lambda f, a: False)
    rs_ = its.run_function(sa_).ret
    ok, why = False, "does not return symmetric_transform(x, y, phi[...])"
    if isinstance(rs_, vg.S) and (nf._fn(rs_) or "").endswith(":symmetric_transform") and len(rs_.args) >= 4:
        xa, ya, pa = rs_.args[1], rs_.args[2], rs_.args[3]
        xyp = vg.mk("param", sa_.params()[0])

        def coord(v):
            if v.op == "sub" and v.args[0] is xyp and v.args[1].op == "tuple" and len(v.args[1].args) == 2 and v.args[1].args[0].op == "ellipsis":
                c = v.args[1].args[1]
                if c.op == "list" and len(c.args) == 1 and c.args[0].op == "const":
                    return c.args[0].args[0]
            return None
        cx, cy = coord(xa), coord(ya)
        coords_ok = cx == 0 and cy == 1
        ph = pa.args[0] if pa.op == "sub" else pa
        id_ok = False
        if ph.op in ("phi", "ifexp"):
            t, a_, b_ = ph.args
            neg = t.op == "not" and t.args[0].op == "param" and t.args[0].args[0] == "first_augment"
            pos = t.op == "param" and t.args[0] == "first_augment"
            zeroed, plain = (a_, b_) if neg else ((b_, a_) if pos else (None, None))
            if zeroed is not None and zeroed.op == "store" and zeroed.args[0] is plain and vg.is_const(zeroed.args[2], 0.0):
                id_ok = leading_block(zeroed.args[1], xyp, vg.mk("param", "num_augment"))
        ok = coords_ok and id_ok
        why = f"x, y are coordinates 0 and 1 of xy: {coords_ok}; phi = 0 on rows [0, B/num_augment) (copy 0 is the identity) unless first_augment: {id_ok}"
    ctx.ob("C15.b", "symmetric_augmentation:first-copy-identity", ok, sa_.loc, why, construct="symmetric_augmentation:identity")
    st = ctx.repo.get_function(TR, "StateAugmentation.__call__")
    ctx.fn(st)
    itst = vg.Interp(ctx.repo, st.cls, inline_policy=lambda f, a: False)
    frst = itst.run_function(st)
    rst = frst.ret
    ok, why = False, "the augmented TensorDict is not batchify(td, num_augment) with features rewritten in a loop"
    cand = [v for v in (rst,) if isinstance(v, vg.S)]
    for v in cand:
        if v.op == "loop" and (nf._fn(v.args[0]) or "").endswith(":batchify") and v.args[1].op == "store":
            init, stv = v.args[0], v.args[1]
            na = init.args[2]
            key = stv.args[1]
            lv = stv.args[0]
            calls = [n for n in vg.walk(stv.args[2]) if n.op == "meth" and n.args[0].op == "self" and n.args[1] == "augmentation"]
            same = bool(calls) and all(len(c.args) >= 4 and c.args[2].op == "sub" and c.args[2].args[0] is lv and c.args[2].args[1] is key and c.args[3] is na for c in calls)
            from_td = init.args[1].op in ("tdref", "param")
            ok = lv.op == "loopvar" and same and from_td and key.op == "iter"
            why = f"td_aug = batchify(td, num_augment): {from_td}; for every feature, augmentation(td_aug[feat], that same num_augment) is written back under that same key: {same}"
    ctx.ob("C15.b", "StateAugmentation.__call__", ok, st.loc, why, construct="StateAugmentation.__call__:flow")
    # ---------------- c: evaluation bookkeeping
    for cn in ("AugmentationEval", "GreedyMultiStartEval", "GreedyMultiStartAugmentEval"):
        fi = ctx.repo.get_function(EV, f"{cn}._inner")
        ctx.fn(fi)
        ite = vg.Interp(ctx.repo, fi.cls, inline_policy=lambda f, a: False)
        fre = ite.run_function(fi)
        rew = [e for e in ite.events if e.kind == "methcall" and e.data[1] == "get_reward" and len(e.data[2]) >= 2]
        ok, why = False, f"{len(rew)} env.get_reward call(s)"
        if len(rew) == 1:
            a0, a1 = rew[0].data[2][0], rew[0].data[2][1]
            param_td = [t for t in ite.tds if t.name == fi.params()[2] and getattr(t, "cloned_from", None) is None and t.parent is None]
            by_uid = {t.uid: t for t in ite.tds}
            on_orig = False
            if isinstance(a0, vg.S) and (nf._fn(a0) or "").endswith(":batchify") and a0.args[1].op == "tdref":
                t0 = by_uid.get(a0.args[1].args[1])
                # an unmodified clone of the parameter (taken before augmentation replaced `td`), or the parameter itself
                on_orig = t0 is not None and bool(param_td) and (t0 is param_td[0] or getattr(t0, "cloned_from", None) is param_td[0]) and not t0.cells and not t0.opaque_updates
            acts = isinstance(a1, vg.S) and a1.op == "sub" and vg.is_const(a1.args[1], "actions") and a1.args[0].op == "call" and a1.args[0].args[0].op == "param" and a1.args[0].args[0].args[0] == fi.params()[1]
            ret = fre.ret
            items = ret.items if isinstance(ret, vg.Tup) else (list(ret.args) if isinstance(ret, vg.S) and ret.op == "tuple" else [])
            # the reported reward derives from that get_reward call
            rep = len(items) == 2 and isinstance(items[1], vg.S) and any(n.op == "meth" and n.args[1] == "get_reward" for n in vg.walk(items[1]))
            ok = on_orig and acts and rep
            why = f"reward = env.get_reward(batchify(<un-augmented clone of td>, k), policy(...)['actions']): original instance {on_orig}, policy actions {acts}; the reported reward derives from it: {rep}"
        ctx.ob("C15.c", f"{cn}._inner:reward-on-original", ok, fi.loc, why + ("" if ok else " -- the reward must be recomputed on the un-augmented clone with the policy's actions"),
               construct=f"{cn}._inner:reward-source")
    # ---- the recomputation `env.get_reward(<reset state>, actions)` is the objective only for envs whose _get_reward is a function of
    #      the INSTANCE and the actions.  Envs that accumulate the objective in the state while stepping have nothing to read in a
    #      freshly reset state.
    from ..envs import EnvA as _EnvA
    from ..tables import routing as _T
    acc_envs = {}
    for cname_, path_ in _T.ALL_ENVS.items():
        env_ = _EnvA(ctx.repo, path_, cname_)
        try:
            r_, st_ = env_.slot("_get_reward"), env_.slot("_step")
        except AnalysisError:
            continue
        if r_ is None or st_ is None or st_.td is None or not isinstance(r_.fr.ret, vg.S):
            continue
        written = {k for k, v in st_.td.cells.items() if not (nf.strip(v).op == "cell0" and nf.strip(v).args[1] == k)}
        acc = sorted((vg.cells_of(r_.fr.ret) & written) - {"action"})
        if acc:
            acc_envs[cname_] = acc
    ctx.extra["envs_with_state_accumulated_objective"] = acc_envs
    for cn in ("GreedyEval", "AugmentationEval", "GreedyMultiStartEval", "GreedyMultiStartAugmentEval"):
        fi = ctx.repo.get_function(EV, f"{cn}._inner")
        ctx.fn(fi)
        ite = vg.Interp(ctx.repo, fi.cls, inline_policy=lambda f, a: False)
        fre = ite.run_function(fi)
        ret = fre.ret
        items = ret.items if isinstance(ret, vg.Tup) else (list(ret.args) if isinstance(ret, vg.S) and ret.op == "tuple" else [])
        recomputed = len(items) == 2 and isinstance(items[1], vg.S) and any(n.op == "meth" and n.args[1] == "get_reward" for n in vg.walk(items[1]))
        from_rollout = len(items) == 2 and isinstance(items[1], vg.S) and any(n.op == "sub" and vg.is_const(n.args[1], "reward") for n in vg.walk(items[1]))
        ok = not (recomputed and not from_rollout and acc_envs)
        ctx.ob("C15.c", f"{cn}._inner:reward-valid-for-state-accumulated-objectives", ok, fi.loc,
               "the reported reward is the rollout's own reward (or no env accumulates its objective in the state)" if ok else
               f"the reported reward is env.get_reward(<freshly reset state>, actions); {len(acc_envs)} envs compute their objective from cells that _step accumulates "
               f"({', '.join(f'{k}: {v[0]}' for k, v in sorted(acc_envs.items()))}): for those the reset state holds no objective and the reported reward is not the objective of the returned actions",
               construct=f"{cn}._inner:reward-from-reset-state")
    # ---- g: whose objective is reported.  Either the reward is recomputed by the evaluation env (`self.env.get_reward`), or it is
    #         the rollout's own reward -- then the rollout must have been made ON the evaluation env: a policy called without
    #         `env=` builds a default-configured env from its env_name, whose objective may differ (SVRP tech_costs, mTSP cost_type ...)
    import ast as _ast
    n_eval = 0
    for cn in ("GreedyEval", "AugmentationEval", "SamplingEval", "GreedyMultiStartEval", "GreedyMultiStartAugmentEval"):
        fi = ctx.repo.get_function(EV, f"{cn}._inner")
        ctx.fn(fi)
        pol = fi.params()[1]
        calls = [c for c in _ast.walk(fi.node) if isinstance(c, _ast.Call) and isinstance(c.func, _ast.Name) and c.func.id == pol]
        if len(calls) != 1:
            raise AnalysisError(f"{cn}._inner: expected one policy call, found {len(calls)}")
        kw = {k.arg: k.value for k in calls[0].keywords if k.arg}
        on_eval_env = "env" in kw and _ast.unparse(kw["env"]) == "self.env"
        ite = vg.Interp(ctx.repo, fi.cls, inline_policy=lambda f, a: False)
        fre = ite.run_function(fi)
        ret = fre.ret
        items = ret.items if isinstance(ret, vg.Tup) else (list(ret.args) if isinstance(ret, vg.S) and ret.op == "tuple" else [])
        if len(items) != 2 or not isinstance(items[1], vg.S):
            raise AnalysisError(f"{cn}._inner: does not return (actions, rewards)")
        recomputed = any(n.op == "meth" and n.args[1] == "get_reward" and isinstance(n.args[0], vg.S) and n.args[0].op == "selfattr" and n.args[0].args[0] == "env" for n in vg.walk(items[1]))
        n_eval += 1
        ok = recomputed or on_eval_env
        ctx.ob("C15.g", f"{cn}._inner:reward-of-the-evaluation-env", ok, fi.loc,
               f"reported reward recomputed by self.env.get_reward: {recomputed}; rollout made on the evaluation env (policy(..., env=self.env)): {on_eval_env}" +
               ("" if ok else " -- the reward is the one of a default-configured env built by the policy, not the objective of the returned actions on the evaluated env"),
               construct=f"{cn}._inner:reward-env")
    # ---- i: the returned actions are the selected rollouts as decoded: no step-axis slicing (a trailing 0 is the depot padding of a
    #         routing env but a CITY of a depot-less one), and the two identity flags of the augmentation stay opposite
    for cn in ("GreedyEval", "AugmentationEval", "SamplingEval", "GreedyMultiStartEval", "GreedyMultiStartAugmentEval"):
        fi = ctx.repo.get_function(EV, f"{cn}._inner")
        ite = vg.Interp(ctx.repo, fi.cls, inline_policy=lambda f, a: False)
        fre = ite.run_function(fi)
        ret = fre.ret
        items = ret.items if isinstance(ret, vg.Tup) else (list(ret.args) if isinstance(ret, vg.S) and ret.op == "tuple" else [])
        acts = items[0] if items and isinstance(items[0], vg.S) else None
        cut = []
        if acts is not None:
            for n_ in vg.walk(acts):
                if n_.op == "sub" and isinstance(n_.args[1], vg.S):
                    idx = n_.args[1]
                    comps = list(idx.args) if idx.op == "tuple" else [idx]
                    if any(c.op == "slice" and not all(vg.is_none(y) for y in c.args) for c in comps if isinstance(c, vg.S)):
                        cut.append(n_)
        ctx.ob("C15.i", f"{cn}._inner:actions-returned-whole", acts is not None and not cut, fi.loc,
               "the returned actions are the selected rollouts, unsliced" if not cut else
               f"the returned actions are sliced ({vg.show(cut[0], 3)[:70]}): entries of the rollout are dropped, the reported reward is no longer the objective of what is returned",
               construct=f"{cn}._inner:actions-sliced")
    tr_mod = ctx.repo.module_by_path(TR)
    bad_kw = []
    for c in _ast.walk(tr_mod.tree):
        if isinstance(c, _ast.Call):
            for k in c.keywords:
                if k.arg == "first_augment" and any(isinstance(x, (_ast.Name, _ast.Attribute)) and (getattr(x, "id", None) == "first_aug_identity" or getattr(x, "attr", None) == "first_aug_identity") for x in _ast.walk(k.value)):
                    negated = isinstance(k.value, _ast.UnaryOp) and isinstance(k.value.op, _ast.Not)
                    if not negated:
                        bad_kw.append(c)
    ctx.ob("C15.i", "transforms:first_augment-is-not-first_aug_identity", not bad_kw, TR,
           "`first_augment` (augment the first copy too) is never bound to `first_aug_identity` (keep the first copy) un-negated" if not bad_kw else
           f"`{_ast.unparse(bad_kw[0])[:80]}` passes first_aug_identity as first_augment: the flags mean the opposite, the first copy becomes a random rotation by default",
           construct="transforms:first-augment-flag")
    # shared rules (C12 factor/best-of, C17 loader order) are run again under this property
    from . import C12, C17
    n0 = len(ctx.obligations)
    C12.factor_sites(ctx)
    keep = [o for o in ctx.obligations[n0:] if "Eval" in o.instance]
    del ctx.obligations[n0:]
    for o in keep:
        o.rule = "C15.c"
    ctx.obligations.extend(keep)
    n1 = len(ctx.obligations)
    C17.run(ctx)
    keep = [o for o in ctx.obligations[n1:] if "evaluate_policy" in o.instance or "EvalBase" in o.instance]
    del ctx.obligations[n1:]
    for o in keep:
        o.rule = "C15.c"
    ctx.obligations.extend(keep)


def augmented_feature_written_whole(ctx: Ctx):
    """C15.h the augmented coordinates are the image of ALL nodes of a row under one isometry.  `StateAugmentation.__call__` may
    post-process the whole feature (normalisation is a declared option), but an index-assignment into the augmented feature
    replaces some nodes of some rows by other values: the row is no longer a distance-preserving image of its instance."""
    import ast
    cls = ctx.repo.get_class("rl4co/data/transforms.py", "StateAugmentation")
    fi = cls.methods.get("__call__")
    if fi is None:
        raise AnalysisError("StateAugmentation.__call__ not found")
    outs = set()
    for st in ast.walk(fi.node):
        if isinstance(st, ast.Assign) and len(st.targets) == 1 and isinstance(st.targets[0], ast.Name) and isinstance(st.value, ast.Call) \
                and isinstance(st.value.func, ast.Attribute) and st.value.func.attr == "augmentation":
            outs.add(st.targets[0].id)
    if not outs:
        raise AnalysisError("StateAugmentation.__call__: result of self.augmentation(...) not bound to a name")
    partial = [st for st in ast.walk(fi.node) if isinstance(st, (ast.Assign, ast.AugAssign))
               and isinstance((st.targets[0] if isinstance(st, ast.Assign) else st.target), ast.Subscript)
               and isinstance((st.targets[0] if isinstance(st, ast.Assign) else st.target).value, ast.Name)
               and (st.targets[0] if isinstance(st, ast.Assign) else st.target).value.id in outs]
    ok = not partial
    ctx.ob("C15.h", "StateAugmentation.__call__:augmented-feature-written-whole", ok, fi.loc,
           "no index-assignment into the augmented feature" if ok else
           f"`{ast.unparse(partial[0])[:80]}` (line {partial[0].lineno}) overwrites part of the augmented feature: with first_aug_identity=False node 0 of row B keeps its original "
           "coordinates while the rest of that row is rotated -- the copy is not distance-preserving",
           construct="StateAugmentation.__call__:partial-overwrite")


def augment_after_reset(ctx: Ctx):
    """C15.d the models that augment at validation / test time (POMO, SymNCO) augment the STATE returned by env.reset, which
    holds every coordinate of the instance in one `locs` tensor (depot included).  Augmenting the raw batch instead transforms
    the customers but not a separately stored depot: the copies are no longer isometric images of the instance."""
    import ast
    n = 0
    for path, cname in (("rl4co/models/zoo/pomo/model.py", "POMO"), ("rl4co/models/zoo/symnco/model.py", "SymNCO")):
        cls = ctx.repo.get_class(path, cname)
        fi = cls.methods.get("shared_step")
        if fi is None:
            raise AnalysisError(f"{cname}.shared_step not found")
        ctx.fn(fi)
        resets = {}     # variable name -> True when assigned from self.env.reset(...)
        ok, seen = True, 0
        why = []
        for st in ast.walk(fi.node):
            if isinstance(st, ast.Assign) and isinstance(st.value, ast.Call):
                f = st.value.func
                tgt = st.targets[0].id if isinstance(st.targets[0], ast.Name) else None
                if isinstance(f, ast.Attribute) and f.attr == "reset" and ast.unparse(f.value) == "self.env" and tgt:
                    resets[tgt] = st.lineno
        for c in ast.walk(fi.node):
            if isinstance(c, ast.Call) and isinstance(c.func, ast.Attribute) and c.func.attr == "augment" and ast.unparse(c.func.value) == "self" and c.args:
                seen += 1
                a = c.args[0]
                good = isinstance(a, ast.Name) and a.id in resets and resets[a.id] < c.lineno
                # ... and the reset is not re-done on the augmented object afterwards
                later_reset = any(isinstance(x, ast.Call) and isinstance(x.func, ast.Attribute) and x.func.attr == "reset" and x.lineno > c.lineno for x in ast.walk(fi.node))
                if not good or later_reset:
                    ok = False
                    why.append(f"self.augment({ast.unparse(a)}) at line {c.lineno}: argument is not the state returned by self.env.reset(...)" + (" (env.reset runs after the augmentation)" if later_reset else ""))
        if not seen:
            raise AnalysisError(f"{cname}.shared_step: no self.augment(...) call")
        n += 1
        ctx.ob("C15.d", f"{cname}.shared_step:augment-the-reset-state", ok, fi.loc,
               "self.augment is applied to the TensorDict returned by self.env.reset" if ok else "; ".join(why), construct=f"{cname}.shared_step:augment-after-reset")


def run_thorough(ctx: Ctx):
    from ..selftest.corpus import for_prop
    from ..selftest.runner import run_corpus
    run_corpus(ctx, for_prop("C15"))
