"""dev helper: python -m sa.devmut PROP relpath 'old' 'new'  -> rules fired on the variant"""
import sys
from .selftest.runner import Variant, evaluate, baseline
prop, rel, old, new = sys.argv[1:5]
root = sys.argv[5] if len(sys.argv) > 5 else "/repo"
base = baseline(root, prop)
print(evaluate(root, Variant(prop, "dev", rel, old, new, "X"), base))
