#!/bin/bash
# usage: tools/survey_seeds.sh [dir]   -- run every property's quick check on each seeded patch (dir/<Cxx>/patch_k.diff) and print which rules fire
D="${1:-/tmp/wt/out}"
for dir in "$D"/C*/; do
  id=$(basename "$dir")
  for p in "$dir"patch_*.diff; do
    [ -f "$p" ] || continue
    k=$(basename "$p" .diff); k=${k#patch_}
    res=$(/verif/tools/try_patch.sh "$p" "$id" 2>&1)
    verdict=$(echo "$res" | grep -E "^(OK|VIOLATION|ANALYSIS-ERROR|PATCH|patch)" | head -1 | cut -c1-40)
    rules=$(echo "$res" | grep -E "^  \[" | sed 's/ at .*//' | sort -u | head -3 | tr '\n' ';')
    echo "$id/$k: $verdict $rules"
  done
done
