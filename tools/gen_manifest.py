#!/venv/bin/python
"""Regenerate MANIFEST.json from sa/claims.py (keeps it schema-valid at all times)."""
import json, os, sys
sys.path.insert(0, os.path.dirname(os.path.dirname(os.path.abspath(__file__))))
from sa.claims import CLAIMS, NOT_APPLICABLE
V = os.path.dirname(os.path.dirname(os.path.abspath(__file__)))
props = [json.loads(l) for l in open(os.path.join(V, "properties.jsonl"))]
checks, na = [], []
for p in props:
    i = p["id"]
    if i in CLAIMS:
        c = CLAIMS[i]
        checks.append({
            "property_id": i,
            "quick_cmd": f"./check {i} --tier quick",
            "thorough_cmd": f"./check {i} --tier thorough",
            "evidence_file": f"/verif/evidence/{i}.json",
            "replay_cmd_template": f"./check {i} --replay {{path}}",
            "engine": "sa",
            "level_claimed": {"category": "other", "text": c["text"], "design_ref": c.get("design_ref", "DESIGN.md §3")},
            "level_note": c["note"],
            "technique": c["technique"],
        })
    else:
        na.append({"property_id": i, "reason": NOT_APPLICABLE.get(i, "check not built yet (work in progress; see DESIGN.md)")})
m = {
    "version": 1,
    "setup_cmd": "./check selfcheck",
    "hooks": {"guard": "RL4CO_VERIF", "enable": "none needed: the checks read /repo's source text only (no hooks are compiled in)",
              "baseline_off_cmd": "cd /repo && /venv/bin/python -m pytest -ra -q -p no:cacheprovider --timeout=900 --continue-on-collection-errors",
              "source_commits": [], "add_only": True},
    "engines": [{"name": "sa", "path": "/verif/sa", "serves_properties": sorted(CLAIMS),
                 "kind_free_text": "repository-specific static analyser on python ast: repo model (MRO/imports), inter-procedural def-use value graph with TensorDict cells, polynomial/comparison/boolean normal forms, batch-axis rank inference, layout algebra, dimensional (length/time) analysis, reference tables"}],
    "checks": checks,
    "not_applicable": na,
    "notes": ("All checks are static analysis over /repo's current working tree (stdlib ast only; nothing of the repo is imported or executed). Exit 0 ok / 1 VIOLATION / "
              "2 ANALYSIS-ERROR. The thorough tier runs the same decision procedure and then tests the procedure itself, still without executing rl4co: "
              "(1) a corpus of source variants evaluated in memory (sa/selftest/corpus.py: mutants that must be reported by the named rule, equivalents that must stay silent) and "
              "(2) metamorphic whole-repo rewrites (sa/selftest/equiv.py: local renames, mirrored comparisons, dim= keywords, commuted operands, size()/shape[]) on which the "
              "verdicts must not change. Open genuine defects are listed in known_findings.json and printed as KNOWN-FINDING lines; 49 `fix:` commits repair genuine defects in /repo (fixed entries suppress nothing). 341 seeded changes written by sub-agents in eleven rounds are kept under seeded/ (339 reported; 2 honestly not decided, see DESIGN 8.4 / 8.5)."),
}
json.dump(m, open(os.path.join(V, "MANIFEST.json"), "w"), indent=1)
print("checks:", len(checks), "n/a:", len(na))
