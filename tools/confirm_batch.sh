#!/bin/bash
# usage: tools/confirm_batch.sh C09:1 C09:2 ...   (sequential; results in /tmp/wt/confirm)
for x in "$@"; do
  id=${x%%:*}; k=${x##*:}
  /verif/tools/confirm_seed.sh "$id" "$k" --tests
done
