#!/bin/bash
# usage: tools/confirm_seed.sh <Cxx> <k> [--tests]
# Confirms a sub-agent's seeded defect against /repo HEAD in a scratch worktree:
#   demo passes on the clean tree, fails with the patch; optionally the test suite passes with the patch.
# Writes /tmp/wt/confirm/<Cxx>_<k>.json
set -u
ID="$1"; K="$2"; TESTS="${3:-}"
OUT=/tmp/wt/out/$ID
W=/tmp/scratch_cf_${ID}_${K}_$$
mkdir -p /tmp/wt/confirm
git -C /repo worktree add --detach "$W" HEAD >/dev/null 2>&1 || { echo "worktree failed"; exit 3; }
cp "$OUT/demo_$K.py" "$W/demo_seed.py"
cd "$W"
OMP_NUM_THREADS=2 PYTHONPATH="$W" timeout 1200 /venv/bin/python demo_seed.py > /tmp/wt/confirm/${ID}_${K}.clean.log 2>&1; RC_CLEAN=$?
APPLY=ok
git apply "$OUT/patch_$K.diff" 2>/dev/null || git apply --3way "$OUT/patch_$K.diff" 2>/dev/null || APPLY=fail
OMP_NUM_THREADS=2 PYTHONPATH="$W" timeout 1200 /venv/bin/python demo_seed.py > /tmp/wt/confirm/${ID}_${K}.patched.log 2>&1; RC_PATCHED=$?
RC_TESTS=-1; NPASS=0; NFAIL=0
if [ "$TESTS" = "--tests" ] && [ "$APPLY" = ok ]; then
  rm -f demo_seed.py
  OMP_NUM_THREADS=2 PYTHONPATH="$W" timeout 5400 /venv/bin/python -m pytest -q -p no:cacheprovider --timeout=900 tests > /tmp/wt/confirm/${ID}_${K}.tests.log 2>&1; RC_TESTS=$?
  NFAIL=$(grep -cE "^FAILED|^ERROR" /tmp/wt/confirm/${ID}_${K}.tests.log)
  FAILED=$(grep -E "^FAILED|^ERROR" /tmp/wt/confirm/${ID}_${K}.tests.log | grep -vE "test_eda\[DPPEnv\]|test_eda\[MDPPEnv\]|test_am_policy\[dpp\]|test_am_policy\[mdpp\]" | wc -l)
else
  FAILED=-1
fi
cd /
git -C /repo worktree remove --force "$W"
echo "{\"id\":\"$ID\",\"k\":$K,\"apply\":\"$APPLY\",\"demo_clean_rc\":$RC_CLEAN,\"demo_patched_rc\":$RC_PATCHED,\"tests_rc\":$RC_TESTS,\"unexpected_test_failures\":$FAILED}" | tee /tmp/wt/confirm/${ID}_${K}.json
