#!/bin/bash
# usage: tools/confirm_seed.sh <Cxx> <k> [--tests] [srcdir]
# Confirms a sub-agent's seeded defect against /repo HEAD in a scratch worktree (removed afterwards):
#   demo passes on the clean tree, fails with the patch; with --tests the existing suite (baseline command) passes with the patch
#   apart from the 4 tests that need network access (they fail on the unchanged tree too).
#   CONFIRM_REV=<commit> confirms against that commit instead of HEAD (for a seed that a later fix: commit made visible to the existing suite)
# Writes <confirm dir>/<Cxx>_<k>.json
set -u
ID="$1"; K="$2"; TESTS="${3:-}"; OUT="${4:-/tmp/wt/out/$ID}"
CF=${CONFIRM_DIR:-/tmp/wt/confirm}
W=/tmp/scratch_cf_${ID}_${K}_$$
mkdir -p "$CF"
git -C /repo worktree add --detach "$W" "${CONFIRM_REV:-HEAD}" >/dev/null 2>&1 || { echo "worktree failed"; exit 3; }
cp "$OUT/demo_$K.py" "$W/demo_seed.py"
cd "$W"
HEADREV=$(git rev-parse --short HEAD)
OMP_NUM_THREADS=2 PYTHONPATH="$W" timeout 3000 /venv/bin/python demo_seed.py > "$CF/${ID}_${K}.clean.log" 2>&1; RC_CLEAN=$?
APPLY=ok
git apply "$OUT/patch_$K.diff" 2>/dev/null || git apply --3way "$OUT/patch_$K.diff" 2>/dev/null || APPLY=fail
OMP_NUM_THREADS=2 PYTHONPATH="$W" timeout 3000 /venv/bin/python demo_seed.py > "$CF/${ID}_${K}.patched.log" 2>&1; RC_PATCHED=$?
RC_TESTS=-1; UNEXP=-1; NPASS=-1
if [ "$TESTS" = "--tests" ] && [ "$APPLY" = ok ]; then
  rm -f demo_seed.py
  OMP_NUM_THREADS=2 PYTHONPATH="$W" timeout 14000 /venv/bin/python -m pytest -ra -q -p no:cacheprovider --timeout=6000 --continue-on-collection-errors --junitxml="$CF/${ID}_${K}.junit.xml" > "$CF/${ID}_${K}.tests.log" 2>&1; RC_TESTS=$?
  read NPASS UNEXP <<<$(/venv/bin/python - "$CF/${ID}_${K}.junit.xml" <<'PY'
import sys, xml.etree.ElementTree as ET
KNOWN = {"test_eda[DPPEnv]", "test_eda[MDPPEnv]", "test_am_policy[dpp]", "test_am_policy[mdpp]"}
try:
    r = ET.parse(sys.argv[1]).getroot()
except Exception:
    print(-1, -1); sys.exit()
np_, bad = 0, 0
for tc in r.iter("testcase"):
    st = [c.tag for c in tc if c.tag in ("failure", "error", "skipped")]
    if not st:
        np_ += 1
    elif any(t in ("failure", "error") for t in st) and tc.get("name") not in KNOWN:
        bad += 1
print(np_, bad)
PY
)
fi
cd /
git -C /repo worktree remove --force "$W"
echo "{\"id\":\"$ID\",\"k\":$K,\"repo_head\":\"$HEADREV\",\"apply\":\"$APPLY\",\"demo_clean_rc\":$RC_CLEAN,\"demo_patched_rc\":$RC_PATCHED,\"tests_rc\":$RC_TESTS,\"tests_passed\":$NPASS,\"unexpected_test_failures\":$UNEXP}" | tee "$CF/${ID}_${K}.json"
