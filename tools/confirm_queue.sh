#!/bin/bash
# usage: tools/confirm_queue.sh <workers> C01:1 C02:2:/alt/src/dir ...   -- confirm seeds in parallel (each in its own scratch worktree)
N="$1"; shift
printf '%s\n' "$@" | xargs -P "$N" -I{} bash -c 'x={}; IFS=: read -r id k src <<<"$x"; if [ -n "$src" ]; then /verif/tools/confirm_seed.sh "$id" "$k" --tests "$src"; else /verif/tools/confirm_seed.sh "$id" "$k" --tests; fi > /dev/null 2>&1'
