#!/bin/bash
# usage: tools/confirm_queue.sh <workers> C01:1 C01:2 ...   -- confirm seeds in parallel (each in its own scratch worktree)
N="$1"; shift
printf '%s\n' "$@" | xargs -P "$N" -I{} bash -c 'x={}; /verif/tools/confirm_seed.sh "${x%%:*}" "${x##*:}" --tests > /dev/null 2>&1'
