#!/bin/bash
# Runs every witness under /verif/findings against /repo (executes rl4co: a development aid, NOT part of any registered check).
# Expected: witnesses of fixed findings exit 0, witnesses of open findings exit 1.
cd /repo
OPEN="F9_ F11_ F17_ F20_ F22_ F31_ F32_ F33_ F40_ F41_ F44_ F47_ F55_ F56_"
for f in /verif/findings/F*.py; do
  b=$(basename $f)
  OMP_NUM_THREADS=2 timeout 900 /venv/bin/python $f > /tmp/witness_$b.log 2>&1; rc=$?
  exp=0; for o in $OPEN; do case $b in $o*) exp=1;; esac; done
  st=ok; [ $rc -ne $exp ] && st="UNEXPECTED"
  echo "$b rc=$rc expected=$exp $st"
done
