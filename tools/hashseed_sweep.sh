#!/bin/bash
# usage: tools/hashseed_sweep.sh [seeds...]  -- runs every property's thorough tier (corpus + metamorphic rewrites) under other
# PYTHONHASHSEED values; any line that is not OK is an order dependence (a development aid, not a registered check)
cd /verif
seeds="${@:-1 7 123}"
for s in $seeds; do
  for p in C01 C02 C03 C04 C05 C06 C07 C08 C09 C10 C11 C12 C13 C14 C15 C16 C17 C18 C19 C20; do
    echo "$s $p"
  done
done | xargs -P 12 -L 1 bash -c 'out=$(VERIF_HASHSEED=$0 ./check $1 --tier thorough --evidence-dir /tmp/hs_ev_$0 2>&1 | grep -v KNOWN | tail -1 | cut -c1-260); echo "seed=$0 $out"' | grep -v " OK property" 
echo "sweep done"
