#!/bin/bash
# usage: tools/try_patch.sh <patch.diff> <Cxx> [Cxx...]   -- run checks against /repo HEAD + patch in a scratch worktree
set -u
P="$1"; shift
W=/tmp/scratch_wt_$$
git -C /repo worktree add --detach "$W" HEAD >/dev/null 2>&1 || { echo "worktree failed"; exit 3; }
if ! git -C "$W" apply "$P" 2>/dev/null; then
  if ! git -C "$W" apply --3way "$P" 2>/dev/null; then
    echo "PATCH-DOES-NOT-APPLY on HEAD; trying pinned commit"
    git -C "$W" checkout -q 6a8cff6 && git -C "$W" apply "$P" || { echo "patch failed"; git -C /repo worktree remove --force "$W"; exit 3; }
  fi
fi
E=$(mktemp -d)
for p in "$@"; do
  /verif/check "$p" --repo "$W" --evidence-dir "$E" 2>&1 | grep -E "^(OK|VIOLATION|ANALYSIS-ERROR|KNOWN|  \[)" | cut -c1-300
done
rm -rf "$E"
git -C /repo worktree remove --force "$W"
