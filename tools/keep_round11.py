#!/venv/bin/python
"""Keep the confirmed round-11 seeds (/tmp/wt11/confirm/*.json) as /verif/seeded/Cxx-<k+18>, with the verdict the checks gave when the seed was delivered."""
import glob, json, os, subprocess
notes = json.load(open("/tmp/wt11/notes.json"))
for f in sorted(glob.glob("/tmp/wt11/confirm/C*_*.json")):
    b = os.path.basename(f)[:-5]
    pid, k = b.split("_")
    dst = f"/verif/seeded/{pid}-{int(k) + 18}"
    if os.path.isdir(dst):
        continue
    n = notes.get(f"{pid}-{k}", ["reported", ""])
    src = f"/tmp/wt11/ported/{pid}" if os.path.exists(f"/tmp/wt11/ported/{pid}/patch_{k}.diff") else f"/tmp/wt11/out/{pid}"
    cmd = ["/verif/tools/keep_seed.py", pid, k, "--src", src, "--confirm", "/tmp/wt11/confirm", "--as", str(int(k) + 18), "--round", "11", "--at-delivery", n[0], "--note", n[1]]
    if len(n) > 2:
        cmd += ["--also", n[2]]
    r = subprocess.run(cmd, capture_output=True, text=True)
    print((r.stdout + r.stderr).strip()[:300])
