#!/venv/bin/python
"""Keep the confirmed round-2 seeds (/tmp/wt2/confirm/*.json) as /verif/seeded/Cxx-<k+3>, with the verdict the checks gave when the seed was delivered."""
import glob, json, os, subprocess
notes = json.load(open("/tmp/wt2/notes.json"))
for f in sorted(glob.glob("/tmp/wt2/confirm/C*_*.json")):
    b = os.path.basename(f)[:-5]
    pid, k = b.split("_")
    dst = f"/verif/seeded/{pid}-{int(k) + 3}"
    if os.path.isdir(dst):
        continue
    n = notes.get(f"{pid}-{k}", ["reported", ""])
    src = f"/tmp/wt2/ported/{pid}" if os.path.exists(f"/tmp/wt2/ported/{pid}/patch_{k}.diff") else f"/tmp/wt2/out/{pid}"
    cmd = ["/verif/tools/keep_seed.py", pid, k, "--src", src, "--confirm", "/tmp/wt2/confirm", "--as", str(int(k) + 3), "--round", "2", "--at-delivery", n[0], "--note", n[1]]
    if len(n) > 2:
        cmd += ["--also", n[2]]
    r = subprocess.run(cmd, capture_output=True, text=True)
    print((r.stdout + r.stderr).strip()[:300])
