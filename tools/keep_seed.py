#!/venv/bin/python
"""Store a confirmed seeded defect under /verif/seeded/<Cxx>-<k>/ (patch.diff, demo.py, meta.json).

usage: tools/keep_seed.py Cxx k [--src DIR] [--confirm DIR] [--detected-by "C12.a;C14.e"] [--manual-json '{"demo_clean_rc":0,...}']

Reads the sub-agent's deliverables (patch_k.diff, demo_k.py, meta_k.json) and my own confirmation record
(<confirm>/<Cxx>_<k>.json written by tools/confirm_seed.sh).  Refuses to keep a seed whose confirmation is incomplete:
the demo must pass on the clean tree (rc 0), fail with the patch (rc != 0), and the existing suite must show no failure
other than the four tests that need network access.  Then runs the checks of that property (and optional others) against
/repo HEAD + patch and records which rules report it.
"""
import argparse
import json
import os
import shutil
import subprocess
import sys

ap = argparse.ArgumentParser()
ap.add_argument("prop")
ap.add_argument("k")
ap.add_argument("--src", default=None)
ap.add_argument("--confirm", default="/tmp/wt/confirm")
ap.add_argument("--also", default="", help="other properties whose checks should be run against the patch, comma separated")
ap.add_argument("--manual-json", default=None)
ap.add_argument("--note", default="")
ap.add_argument("--round", default="1")
ap.add_argument("--at-delivery", default="reported", help="verdict of the checks as they were when the seed was delivered")
ap.add_argument("--as", dest="as_k", default=None, help="index to store the seed under (default: k)")
a = ap.parse_args()
src = a.src or f"/tmp/wt/out/{a.prop}"
cf = json.loads(a.manual_json) if a.manual_json else json.load(open(f"{a.confirm}/{a.prop}_{a.k}.json"))
ok = cf.get("demo_clean_rc") == 0 and cf.get("demo_patched_rc") not in (0, None, 124) and cf.get("unexpected_test_failures") == 0 and cf.get("tests_passed", 0) >= 117
if not ok:
    print("NOT CONFIRMED:", cf)
    sys.exit(1)
dst = f"/verif/seeded/{a.prop}-{a.as_k or a.k}"
os.makedirs(dst, exist_ok=True)
patch = f"{src}/patch_{a.k}.diff"
# keep the patch in a form that applies to /repo HEAD
if subprocess.run(["git", "-C", "/repo", "apply", "--check", patch], capture_output=True).returncode != 0:
    w = f"/tmp/keep_wt_{os.getpid()}"
    subprocess.run(["git", "-C", "/repo", "worktree", "add", "--detach", w, "HEAD"], capture_output=True, check=True)
    try:
        r = subprocess.run(["git", "-C", w, "apply", "--3way", patch], capture_output=True)
        if r.returncode != 0:
            print("patch does not apply on HEAD even with --3way; port it by hand", r.stderr.decode()[:300])
            sys.exit(2)
        open(f"{dst}/patch.diff", "w").write(subprocess.run(["git", "-C", w, "diff", "HEAD"], capture_output=True, text=True).stdout)
    finally:
        subprocess.run(["git", "-C", "/repo", "worktree", "remove", "--force", w], capture_output=True)
else:
    shutil.copy(patch, f"{dst}/patch.diff")
shutil.copy(f"{src}/demo_{a.k}.py", f"{dst}/demo.py")
am = json.load(open(f"{src}/meta_{a.k}.json"))
# which rules report it
props = [a.prop] + [p for p in a.also.split(",") if p]
out = subprocess.run(["/verif/tools/try_patch.sh", f"{dst}/patch.diff"] + props, capture_output=True, text=True).stdout
detected = sorted({ln.strip().split(" at ")[0] for ln in out.splitlines() if ln.startswith("  [")})
verdicts = [ln.split(" replay=")[0] for ln in out.splitlines() if ln.startswith(("VIOLATION", "OK ", "ANALYSIS-ERROR"))]
meta = {
    "seed": f"{a.prop}-{a.as_k or a.k}",
    "breaks_property": am.get("property", a.prop),
    "file": am.get("file"),
    "function": am.get("function"),
    "summary": am.get("summary"),
    "needs_to_manifest": am.get("needs_to_manifest"),
    "why_the_existing_tests_pass": am.get("why_tests_pass"),
    "origin": "written by a sub-agent that saw only the property text and a scratch worktree of /repo; confirmed independently as recorded below",
    "confirmed": {
        "repo_head": cf.get("repo_head"),
        "what_was_run": [
            "scratch worktree of /repo HEAD (tools/confirm_seed.sh), removed afterwards",
            "python demo.py on the clean tree -> rc %s (must be 0)" % cf.get("demo_clean_rc"),
            "git apply patch.diff; python demo.py -> rc %s (must be non-zero)" % cf.get("demo_patched_rc"),
            "pytest -ra -q -p no:cacheprovider --continue-on-collection-errors --junitxml=... (the baseline command) with the patch applied -> "
            "%s passed, %s failures other than the 4 tests that need network access (they fail on the unchanged tree too)" % (cf.get("tests_passed"), cf.get("unexpected_test_failures")),
        ],
    },
    "checks_run_against_it": props,
    "check_verdicts": verdicts,
    "reported_by_rules": detected,
    "note": a.note,
    "round": a.round,
    "at_delivery": a.at_delivery,
}
json.dump(meta, open(f"{dst}/meta.json", "w"), indent=1)
print(dst, "kept;", "detected by", detected if detected else "NO RULE")
