#!/bin/bash
# usage: tools/recheck_seeds.sh  -- applies every kept seed (/verif/seeded/*/patch.diff) to /repo HEAD in turn (undone straight afterwards by
# tools/try_patch.sh) and runs the checks recorded in its meta.json; prints the verdict per seed.  Exit 1 if a seed is not reported.
bad=0
for d in /verif/seeded/C*/; do
  id=$(basename "$d")
  also=$(/venv/bin/python -c "import json;print(' '.join(json.load(open('${d}meta.json')).get('checks_run_against_it',[])))")
  res=$(/verif/tools/try_patch.sh "${d}patch.diff" $also 2>&1)
  v=$(echo "$res" | grep -E "^(VIOLATION|PATCH|patch|error)" | head -1 | sed 's/ replay=.*//')
  if [ -z "$v" ] || ! echo "$v" | grep -q "^VIOLATION"; then v="NOT REPORTED ($(echo "$res" | tail -1 | cut -c1-120))"; bad=1; fi
  echo "$id: $v"
done
exit $bad
