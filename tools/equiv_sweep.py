#!/venv/bin/python
"""Behaviour-preserving whole-repo rewrites (not a registered check): the checks must stay silent.

  rename   every local variable of every function in rl4co/ gets the suffix `_r`
  size     x.shape[k]  ->  x.size(k)        (integer k)
  shape    x.size(k)   ->  x.shape[k]
  yoda     a == b -> b == a ; a < b -> b > a (comparison operands swapped with the mirrored operator)
  format   ast.unparse round trip only (drops comments / formatting)

usage: tools/equiv_sweep.py [rename|size|yoda|format ...] [--props C01,C02]
"""
import ast
import contextlib
import importlib
import io
import os
import sys

sys.path.insert(0, os.path.dirname(os.path.dirname(os.path.abspath(__file__))))
ROOT = os.environ.get("RL4CO_REPO", "/repo")


from sa.selftest.equiv import TRANSFORMS, build as _build  # noqa: E402


def build(kind):
    return _build(ROOT, kind)


def main():
    from sa.core import Ctx
    from sa.model import AnalysisError, Repo
    args = [a for a in sys.argv[1:] if not a.startswith("--")]
    props = [f"C{i:02d}" for i in range(1, 21)]
    for a in sys.argv[1:]:
        if a.startswith("--props"):
            props = a.split("=", 1)[1].split(",") if "=" in a else props
    kinds = args or list(TRANSFORMS)
    bad_total = 0
    for kind in kinds:
        ov = build(kind)
        for p in props:
            mod = importlib.import_module(f"sa.rules.{p}")
            base_repo = Repo(ROOT)
            bctx = Ctx(p, base_repo, "quick", 0)
            with contextlib.redirect_stdout(io.StringIO()):
                mod.run(bctx)
            base_bad = {(o.rule, o.construct) for o in bctx.obligations if not o.ok}
            try:
                repo = Repo(ROOT, overrides=ov)
                ctx = Ctx(p, repo, "quick", 0)
                with contextlib.redirect_stdout(io.StringIO()):
                    mod.run(ctx)
                bad = [(o.rule, o.construct, o.detail[:140]) for o in ctx.obligations if not o.ok and (o.rule, o.construct) not in base_bad]
                lost = len(bctx.obligations) - len(ctx.obligations)
                status = "silent" if not bad else f"FALSE ALARMS {len(bad)}"
                print(f"{kind:7s} {p}: {status}; obligations {len(ctx.obligations)} (baseline {len(bctx.obligations)})")
                for b in bad[:6]:
                    print("     ", b)
                bad_total += len(bad)
            except AnalysisError as e:
                print(f"{kind:7s} {p}: ANALYSIS-ERROR {str(e)[:200]}")
                bad_total += 1
            except Exception as e:
                print(f"{kind:7s} {p}: CRASH {type(e).__name__}: {str(e)[:200]}")
                bad_total += 1
    print("total problems:", bad_total)
    return 1 if bad_total else 0


if __name__ == "__main__":
    sys.exit(main())
