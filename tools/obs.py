#!/venv/bin/python
"""dev helper: tools/obs.py Cxx [substr] -> obligations of a rule module with their explanations"""
import sys, io, contextlib, os
sys.path.insert(0, os.path.dirname(os.path.dirname(os.path.abspath(__file__))))
from sa.model import Repo
from sa.core import Ctx
import importlib
p = sys.argv[1]
sub = sys.argv[2] if len(sys.argv) > 2 else ""
m = importlib.import_module(f"sa.rules.{p}")
ctx = Ctx(p, Repo(os.environ.get("RL4CO_REPO", "/repo")), "quick", 0)
with contextlib.redirect_stdout(io.StringIO()):
    m.run(ctx)
for o in ctx.obligations:
    d = o.as_dict()
    if sub in str(d.get("construct", "")) or sub in str(d.get("instance", "")):
        print(d.get("ok"), d.get("rule"), d.get("construct"), "|", str(d.get("detail", d.get("explanation", d)))[:260])
