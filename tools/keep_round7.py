#!/venv/bin/python
"""Keep the confirmed round-7 seeds (/tmp/wt7/confirm/*.json) as /verif/seeded/Cxx-<k+12>, with the verdict the checks gave when the seed was delivered."""
import glob, json, os, subprocess
notes = json.load(open("/tmp/wt7/notes.json"))
for f in sorted(glob.glob("/tmp/wt7/confirm/C*_*.json")):
    b = os.path.basename(f)[:-5]
    pid, k = b.split("_")
    dst = f"/verif/seeded/{pid}-{int(k) + 12}"
    if os.path.isdir(dst):
        continue
    n = notes.get(f"{pid}-{k}", ["reported", ""])
    src = f"/tmp/wt7/ported/{pid}" if os.path.exists(f"/tmp/wt7/ported/{pid}/patch_{k}.diff") else f"/tmp/wt7/out/{pid}"
    cmd = ["/verif/tools/keep_seed.py", pid, k, "--src", src, "--confirm", "/tmp/wt7/confirm", "--as", str(int(k) + 12), "--round", "7", "--at-delivery", n[0], "--note", n[1]]
    if len(n) > 2:
        cmd += ["--also", n[2]]
    r = subprocess.run(cmd, capture_output=True, text=True)
    print((r.stdout + r.stderr).strip()[:300])
