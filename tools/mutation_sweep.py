#!/venv/bin/python
"""Exploratory mutation sweep (not a registered check): generic AST mutants of the env /
decoding / loss functions are evaluated in memory against the rule modules; survivors are
listed for triage (they are either equivalent mutants or gaps of the rules).

usage: tools/mutation_sweep.py [--scope env|model|model2|gen|all] [--jobs N] [--limit K] [--out file]
"""
import argparse
import ast
import contextlib
import copy
import importlib
import io
import json
import os
import sys
import time
from concurrent.futures import ProcessPoolExecutor

sys.path.insert(0, os.path.dirname(os.path.dirname(os.path.abspath(__file__))))

ENV_FUNCS = {"_step", "_reset", "get_action_mask", "_get_reward", "check_solution_validity", "_make_step", "_transit_to_next_time", "_translate_action",
             "_get_job_machine_availability", "_update_step_state", "_local_operator", "_check_step_complete"}
ENV_PROPS = ["C01", "C02", "C03", "C04", "C05", "C06", "C07", "C08", "C09"]
MODEL_TARGETS = {
    "rl4co/utils/decoding.py": (None, ["C10", "C11", "C12", "C13"]),
    "rl4co/utils/ops.py": ({"_batchify_single", "_unbatchify_single", "batchify", "unbatchify", "unbatchify_and_gather", "select_start_nodes", "get_num_starts", "get_tour_length", "get_distance", "sample_n_random_actions"}, ["C12", "C03"]),
    "rl4co/models/rl/reinforce/baselines.py": (None, ["C16", "C17", "C20", "C19"]),
    "rl4co/models/rl/reinforce/reinforce.py": ({"calculate_loss"}, ["C16"]),
    "rl4co/models/rl/common/utils.py": (None, ["C20"]),
    "rl4co/models/zoo/symnco/losses.py": (None, ["C16", "C12"]),
    "rl4co/data/transforms.py": (None, ["C15"]),
    "rl4co/data/dataset.py": (None, ["C17"]),
    "rl4co/models/rl/ppo/ppo.py": ({"shared_step"}, ["C11", "C16"]),
}


MODEL2_TARGETS = {
    "rl4co/models/zoo/eas/decoder.py": ({"forward_eas"}, ["C10", "C11", "C12"]),
    "rl4co/models/rl/common/critic.py": (None, ["C16"]),
    "rl4co/models/zoo/mdam/model.py": (None, ["C16", "C17"]),
    "rl4co/tasks/eval.py": ({"_inner", "__call__"}, ["C15", "C12"]),
    "rl4co/models/zoo/pomo/model.py": ({"shared_step"}, ["C12", "C16"]),
    "rl4co/models/zoo/symnco/model.py": ({"shared_step"}, ["C12", "C16"]),
    "rl4co/models/common/constructive/base.py": ({"forward"}, ["C11", "C10"]),
    "rl4co/envs/scheduling/fjsp/parser.py": (None, ["C19", "C02"]),
    "rl4co/data/utils.py": (None, ["C19"]),
}


class Mutator(ast.NodeTransformer):
    """Applies exactly the k-th applicable mutation inside the selected functions."""

    def __init__(self, funcs, target_index):
        self.funcs = funcs
        self.k = target_index
        self.i = -1
        self.depth = 0
        self.desc = None

    def _hit(self):
        self.i += 1
        return self.i == self.k

    def visit_FunctionDef(self, node):
        inside = self.funcs is None or node.name in self.funcs
        if inside:
            self.depth += 1
        self.generic_visit(node)
        if inside:
            self.depth -= 1
        return node

    def visit_Compare(self, node):
        self.generic_visit(node)
        if self.depth and len(node.ops) == 1:
            op = node.ops[0]
            swaps = {ast.Lt: ast.LtE, ast.LtE: ast.Lt, ast.Gt: ast.GtE, ast.GtE: ast.Gt}
            if type(op) in swaps:
                if self._hit():
                    new = swaps[type(op)]()
                    self.desc = f"L{node.lineno}: {ast.unparse(node)}  ->  strictness flipped"
                    node.ops = [new]
                if self._hit():
                    rev = {ast.Lt: ast.Gt, ast.LtE: ast.GtE, ast.Gt: ast.Lt, ast.GtE: ast.LtE}[type(op)]()
                    self.desc = f"L{node.lineno}: {ast.unparse(node)}  ->  direction reversed"
                    node.ops = [rev]
            elif isinstance(op, (ast.Eq, ast.NotEq)):
                if self._hit():
                    self.desc = f"L{node.lineno}: {ast.unparse(node)}  ->  ==/!= swapped"
                    node.ops = [ast.NotEq() if isinstance(op, ast.Eq) else ast.Eq()]
        return node

    def visit_BinOp(self, node):
        self.generic_visit(node)
        if not self.depth:
            return node
        if isinstance(node.op, (ast.BitAnd, ast.BitOr)):
            if self._hit():
                self.desc = f"L{node.lineno}: {ast.unparse(node)[:80]}  ->  & / | swapped"
                node.op = ast.BitOr() if isinstance(node.op, ast.BitAnd) else ast.BitAnd()
            if self._hit():
                self.desc = f"L{node.lineno}: {ast.unparse(node)[:80]}  ->  right operand dropped"
                return node.left
        elif isinstance(node.op, (ast.Add, ast.Sub)):
            if self._hit():
                self.desc = f"L{node.lineno}: {ast.unparse(node)[:80]}  ->  + / - swapped"
                node.op = ast.Sub() if isinstance(node.op, ast.Add) else ast.Add()
        elif isinstance(node.op, (ast.FloorDiv, ast.Mod)):
            if self._hit():
                self.desc = f"L{node.lineno}: {ast.unparse(node)[:80]}  ->  // and % swapped"
                node.op = ast.Mod() if isinstance(node.op, ast.FloorDiv) else ast.FloorDiv()
        return node

    def visit_UnaryOp(self, node):
        self.generic_visit(node)
        if self.depth and isinstance(node.op, (ast.Invert, ast.USub)) and not isinstance(node.operand, ast.Constant):
            if self._hit():
                self.desc = f"L{node.lineno}: {ast.unparse(node)[:80]}  ->  unary operator removed"
                return node.operand
        return node

    def visit_Call(self, node):
        self.generic_visit(node)
        if not self.depth:
            return node
        if isinstance(node.func, ast.Attribute) and node.func.attr in ("detach", "clone") and not node.args:
            if self._hit():
                self.desc = f"L{node.lineno}: {ast.unparse(node)[:80]}  ->  .{node.func.attr}() removed"
                return node.func.value
        if isinstance(node.func, ast.Attribute) and node.func.attr in ("scatter", "scatter_") and node.args and isinstance(node.args[-1], ast.Constant) and node.args[-1].value in (0, 1, True, False):
            if self._hit():
                self.desc = f"L{node.lineno}: {ast.unparse(node)[:80]}  ->  scatter constant flipped"
                v = node.args[-1].value
                node.args[-1] = ast.Constant(value=(not v) if isinstance(v, bool) else 1 - v)
        if isinstance(node.func, ast.Attribute) and node.func.attr in ("repeat", "repeat_interleave"):
            if self._hit():
                self.desc = f"L{node.lineno}: {ast.unparse(node)[:80]}  ->  repeat <-> repeat_interleave"
                node.func.attr = "repeat" if node.func.attr == "repeat_interleave" else "repeat_interleave"
        return node

    def visit_Dict(self, node):
        self.generic_visit(node)
        if self.depth and len(node.keys) >= 3 and all(isinstance(k, ast.Constant) for k in node.keys if k is not None):
            for j in range(len(node.keys)):
                if self._hit():
                    self.desc = f"L{node.lineno}: dict entry {ast.unparse(node.keys[j])} dropped"
                    node.keys = node.keys[:j] + node.keys[j + 1:]
                    node.values = node.values[:j] + node.values[j + 1:]
                    break
        return node


def count_mutants(tree, funcs):
    m = Mutator(funcs, -2)
    m.visit(copy.deepcopy(tree))
    return m.i + 1


def make_variant(src, funcs, k):
    tree = ast.parse(src)
    m = Mutator(funcs, k)
    new = m.visit(tree)
    if m.desc is None:
        return None, None
    ast.fix_missing_locations(new)
    return ast.unparse(new), m.desc


_BASE = {}


def evaluate(args):
    root, rel, funcs, k, props = args
    from sa.core import Ctx
    from sa.model import AnalysisError, Repo
    path = os.path.join(root, rel)
    src = open(path).read()
    new_src, desc = make_variant(src, funcs, k)
    if new_src is None:
        return None
    # baselines are computed on the unparse-normalised original (line numbers change)
    fired = []
    for p in props:
        mod = importlib.import_module(f"sa.rules.{p}")
        key = (p,)
        if key not in _BASE:
            repo = Repo(root)
            ctx = Ctx(p, repo, "quick", 0)
            with contextlib.redirect_stdout(io.StringIO()):
                try:
                    mod.run(ctx)
                except AnalysisError:
                    pass
            _BASE[key] = {(o.rule, o.construct) for o in ctx.obligations if not o.ok}
        try:
            repo = Repo(root, overrides={rel: new_src})
            ctx = Ctx(p, repo, "quick", 0)
            with contextlib.redirect_stdout(io.StringIO()):
                mod.run(ctx)
            bad = {(o.rule, o.construct) for o in ctx.obligations if not o.ok} - _BASE[key]
            if bad:
                fired.append(sorted(r for r, _ in bad)[0])
        except AnalysisError as e:
            fired.append(f"{p}:ANALYSIS-ERROR")
        except Exception as e:  # analyser crash on a mutant: report
            fired.append(f"{p}:CRASH:{type(e).__name__}")
    return {"file": rel, "k": k, "desc": desc, "fired": fired}


def main():
    ap = argparse.ArgumentParser()
    ap.add_argument("--scope", default="env")
    ap.add_argument("--repo", default="/repo")
    ap.add_argument("--jobs", type=int, default=8)
    ap.add_argument("--limit", type=int, default=0)
    ap.add_argument("--out", default="/tmp/mutation_sweep.json")
    a = ap.parse_args()
    tasks = []
    if a.scope in ("env", "all"):
        for dirpath, _, files in os.walk(os.path.join(a.repo, "rl4co/envs")):
            for fn in files:
                if fn == "env.py":
                    rel = os.path.relpath(os.path.join(dirpath, fn), a.repo)
                    if "/mpdp/" in rel or "/shpp/" in rel:
                        continue
                    n = count_mutants(ast.parse(open(os.path.join(a.repo, rel)).read()), ENV_FUNCS)
                    tasks += [(a.repo, rel, ENV_FUNCS, k, ENV_PROPS) for k in range(n)]
    if a.scope in ("gen", "all"):
        GEN_FUNCS = {"_generate", "generate_time_windows", "generate_distance_limit", "generate_demands", "generate_backhaul_class", "generate_locations",
                     "_simulate_processing_times", "get_sampler", "subsample_problems"}
        for dirpath, _, files in os.walk(os.path.join(a.repo, "rl4co/envs")):
            for fn in files:
                if fn == "generator.py" or (fn == "utils.py" and dirpath.endswith("common")):
                    rel = os.path.relpath(os.path.join(dirpath, fn), a.repo)
                    if "/mpdp/" in rel or "/shpp/" in rel:
                        continue
                    n = count_mutants(ast.parse(open(os.path.join(a.repo, rel)).read()), GEN_FUNCS)
                    tasks += [(a.repo, rel, GEN_FUNCS, k, ["C18"]) for k in range(n)]
    if a.scope in ("model", "all"):
        for rel, (funcs, props) in MODEL_TARGETS.items():
            n = count_mutants(ast.parse(open(os.path.join(a.repo, rel)).read()), funcs)
            tasks += [(a.repo, rel, funcs, k, props) for k in range(n)]
    if a.scope in ("model2", "all"):
        for rel, (funcs, props) in MODEL2_TARGETS.items():
            n = count_mutants(ast.parse(open(os.path.join(a.repo, rel)).read()), funcs)
            tasks += [(a.repo, rel, funcs, k, props) for k in range(n)]
    if a.limit:
        import random
        random.Random(0).shuffle(tasks)
        tasks = tasks[: a.limit]
    t0 = time.time()
    res = []
    with ProcessPoolExecutor(a.jobs) as ex:
        for r in ex.map(evaluate, tasks, chunksize=4):
            if r is not None:
                res.append(r)
    killed = [r for r in res if r["fired"]]
    surv = [r for r in res if not r["fired"]]
    json.dump({"total": len(res), "killed": len(killed), "survivors": surv, "wall_s": time.time() - t0}, open(a.out, "w"), indent=1)
    print(f"mutants {len(res)} killed {len(killed)} survived {len(surv)} ({time.time() - t0:.0f}s) -> {a.out}")


if __name__ == "__main__":
    main()
