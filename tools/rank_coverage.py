#!/venv/bin/python
"""dev helper: fraction of elementwise / select operations in the env slots whose operand ranks the rank inference knows"""
import sys, os
sys.path.insert(0, os.path.dirname(os.path.dirname(os.path.abspath(__file__))))
from sa.model import Repo
from sa import vg, nf, units
from sa import batchaxis as ba
from sa.envs import EnvA, generator_slot
from sa.tables import routing as T
repo = Repo(os.environ.get("RL4CO_REPO", "/repo"))
tot = known = 0
for cname, path in T.ALL_ENVS.items():
    env = EnvA(repo, path, cname)
    rs = env.slot('_reset')
    ranks = ba.RankFacts(); ranks.learn_from_reset(rs.td)
    g, gsl = generator_slot(repo, env.cls)
    if gsl is not None and gsl.td is not None:
        gr = ba.RankFacts(); gr.learn_from_reset(gsl.td)
        for k, v in rs.td.cells.items():
            if k not in ranks.cell_rank:
                r = gr.rank(v)
                if r is not None:
                    ranks.cell_rank[k] = r
    ranks.learn_loop_invariants()
    t = k_ = 0; unk = []
    for nm in ('_step', 'get_action_mask', '_get_reward', 'check_solution_validity'):
        sl = env.slot(nm)
        if sl is None:
            continue
        seen = set()
        for r in units.roots_of(sl.it, sl.fr):
            for n in vg.walk(r):
                if n.id in seen:
                    continue
                seen.add(n.id)
                if n.op in ba.ELEMENTWISE and len(n.args) == 2 and all(isinstance(a, vg.S) and not ba.is_scalarish(a) and nf.strip(a).op != "selfattr" for a in n.args):
                    ra, rb = ranks.rank(n.args[0]), ranks.rank(n.args[1])
                    t += 1
                    if ra is not None and rb is not None:
                        k_ += 1
                    elif len(unk) < 3:
                        bad = n.args[0] if ra is None else n.args[1]
                        unk.append(vg.show(bad, 3)[:90])
    tot += t; known += k_
    print(f"{cname:14s} {k_:3d}/{t:3d}  unknown e.g.: {unk[:2]}")
print('total', known, '/', tot)
