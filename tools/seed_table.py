#!/venv/bin/python
"""Regenerate the 'seeded defects' table of DESIGN.md (section 8.4) from /verif/seeded/*/meta.json."""
import glob, json, os, re
V = os.path.dirname(os.path.dirname(os.path.abspath(__file__)))
rows = []
for d in sorted(glob.glob(os.path.join(V, "seeded", "C*-*"))):
    m = json.load(open(os.path.join(d, "meta.json")))
    rules = sorted({re.sub(r"^\[(C\d\d\.[a-z])\].*", r"\1", r) for r in m.get("reported_by_rules", [])})
    first = (m.get("reported_by_rules") or ["-"])[0]
    summ = (m.get("summary") or "").replace("|", "/").replace("\n", " ")
    summ = summ[:150] + ("..." if len(summ) > 150 else "")
    verdict = "reported" if rules else "**not reported**"
    atd = m.get("at_delivery", "reported")
    rnd = m.get("round", "1")
    note = (m.get("note") or "").replace("|", "/")
    rows.append(f"| {m['seed']} | {rnd} | `{m.get('file','?')}` {m.get('function') or ''} | {summ} | {atd} | {verdict}: {', '.join(rules) if rules else ''} {('(' + note + ')') if note else ''} | `{first[:90]}` |")
hdr = ("### 8.4 Seeded defects (written by sub-agents that saw only a property's text) and the checks that catch them\n\n"
       "Each row is one change kept under `/verif/seeded/<id>/` after I confirmed it myself in a scratch worktree of /repo HEAD: the demonstration passes on the clean tree and fails\n"
       "with the patch, and the existing suite passes with the patch (apart from the four tests that need network access, which fail on the unchanged tree as well).\n"
       "`meta.json` records what was run.  'reported' = the property's quick check exits 1 on /repo + patch and names the rule(s) shown.\n"
       "Round 1 (ids 1-3 per property): one agent per property.  Round 2 (ids 4-6, twelve properties, run after 18 h of strengthening, agents told to avoid round-1 sites): "
       "column `at delivery` is the verdict of the checks AS THEY WERE when the seed arrived -- `missed` seeds are the ones that drove the rules named in the note; "
       "`not-decided` seeds are still not reported (value-level questions outside static reach, recorded honestly).  "
       "Round 3 (ids 7-9, twelve properties, agents told which mechanisms and sites rounds 1-2 had used and asked for different ones): same columns.  "
       "Round 4 (ids 10-12, the eight properties that had no round 3: C02 C04 C08 C10 C12 C16 C17 C20; same instructions as round 3).  "
       "Round 5 (ids 10-12 of the twelve round-3 properties; agents given the sites and a longer list of mechanisms of rounds 1-3 to avoid).  "
       "Round 6 (ids 13-15 of the eight round-4 properties), round 7 (ids 13-15 of the twelve round-3/5 properties) round 8 (ids 16-18 of the eight round-4/6 properties) round 9 (ids 16-18 of C07 C09 C13 C14 C15 C18, a half round), round 10 (ids 16-18 of C01 C03 C05 C06 C11 C19, a half round) and round 11 (ids 19-20 of the eight round-4/6/8 properties, two seeds per agent): same instructions, with the sites and mechanisms of all earlier rounds excluded.  "
       "`not-decided` seeds that a later rule decides keep their at-delivery entry; the note says which rule decides them now.  "
       "Six older seeds whose patches no longer applied after later fix: commits were re-written by hand for HEAD (`ported` in meta.json).\n\n"
       "| seed | round | where | what it does | at delivery | verdict of the checks now | first report |\n|---|---|---|---|---|---|---|\n")
txt = hdr + "\n".join(rows) + "\n"
p = os.path.join(V, "DESIGN.md")
s = open(p).read()
a = s.find("### 8.4 Seeded defects")
if a >= 0:
    b = s.find("\n### ", a + 5)
    b2 = s.find("\n## ", a + 5)
    ends = [x for x in (b, b2) if x >= 0]
    e = min(ends) if ends else len(s)
    s = s[:a] + txt + s[e:]
else:
    s = s.rstrip("\n") + "\n\n" + txt
open(p, "w").write(s)
print(len(rows), "rows")
